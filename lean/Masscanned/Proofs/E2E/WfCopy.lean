/-
  Proofs/E2E/WfCopy — a namespaced copy (`Masscanned.E2E.WfC`) of Proofs/Wf.lean, VERBATIM (only the
  namespace line changed), plus `reply_wf` of Thm/C04 re-derived from it (7 lines, identical).

  Why a copy: Proofs/Wf.lean (hence Thm/C04) cannot be imported together with Proofs/C0203/Bytes.lean
  (on which Thm/C03 and Thm/C15 depend): both declare `Masscanned.sub_append_left`,
  `Masscanned.u8_append_left`, `Masscanned.be16_append_left`, `Masscanned.tcpHdr_length`,
  `Masscanned.udpRepl_shape`, … at top level with different statements.  The end-to-end statement
  `udp_request_e2e` needs C03 (mirror), C04 (well-formedness) and C15 (STUN) in ONE environment.
  Same precedent: Proofs/C12/Delivery.lean.  Original header follows.
-/
/-
  Proofs/Wf — structural lemmas about what each layer of `Model/Net` emits, and introduction
  lemmas for the spec's well-formedness predicates (`Spec.tcpWf`, `Spec.udpWf`, `Spec.ipv4Wf`,
  `Spec.ipv6Wf`, `Spec.frameWf`).
-/
import Masscanned.Proofs.Checksum
import Masscanned.Model.Net
namespace Masscanned.E2E.WfC
open Masscanned
open Spec

/-! ### spec readers on `hdr ++ payload` -/

theorem u8_append_left (a b : Bytes) (i : Nat) (h : i < a.length) : u8 (a ++ b) i = u8 a i := by
  simp [u8, List.getD_eq_getElem?_getD, List.getElem?_append_left h]

theorem be16_append_left (a b : Bytes) (i : Nat) (h : i + 1 < a.length) :
    be16 (a ++ b) i = be16 a i := by
  simp [be16, u8_append_left a b i (by omega), u8_append_left a b (i + 1) h]

theorem sub_append_left (a b : Bytes) (i n : Nat) (h : i + n ≤ a.length) :
    Spec.sub (a ++ b) i n = Spec.sub a i n := by
  unfold Spec.sub
  rw [List.drop_append_of_le_length (by omega), List.take_append_of_le_length (by simp; omega)]

theorem slice_length (p : Bytes) (off n : Nat) (h : off + n ≤ p.length) : (slice p off n).length = n := by
  simp [slice]; omega

theorem len4 (l : Bytes) (h : l.length = 4) : ∃ a b c d, l = [a, b, c, d] := by
  match l, h with
  | [a, b, c, d], _ => exact ⟨a, b, c, d, rfl⟩

theorem len6 (l : Bytes) (h : l.length = 6) : ∃ a b c d e f, l = [a, b, c, d, e, f] := by
  match l, h with
  | [a, b, c, d, e, f], _ => exact ⟨a, b, c, d, e, f, rfl⟩

theorem len16 (l : Bytes) (h : l.length = 16) :
    ∃ a0 a1 a2 a3 a4 a5 a6 a7 a8 a9 a10 a11 a12 a13 a14 a15,
      l = [a0, a1, a2, a3, a4, a5, a6, a7, a8, a9, a10, a11, a12, a13, a14, a15] := by
  match l, h with
  | [a0, a1, a2, a3, a4, a5, a6, a7, a8, a9, a10, a11, a12, a13, a14, a15], _ =>
    exact ⟨a0, a1, a2, a3, a4, a5, a6, a7, a8, a9, a10, a11, a12, a13, a14, a15, rfl⟩

theorem at8_lt (p : Bytes) (i : Nat) : at8 p i < 256 := by
  unfold at8; exact UInt8.toNat_lt _

/-! ### pseudo-headers: the model's numeric sum is the word sum of the spec's byte string -/

theorem pseudoSum_comm (a b : Bytes) (proto len : Nat) : pseudoSum a b proto len = pseudoSum b a proto len := by
  unfold pseudoSum; omega

theorem pseudo4_length (src dst : Bytes) (proto len : Nat) (hs : src.length = 4) (hd : dst.length = 4) :
    (pseudo4 src dst proto len).length = 12 := by
  simp [pseudo4, hs, hd]

theorem pseudo6_length (src dst : Bytes) (proto len : Nat) (hs : src.length = 16) (hd : dst.length = 16) :
    (pseudo6 src dst proto len).length = 40 := by
  simp [pseudo6, hs, hd]

theorem pseudoSum_pseudo4 (src dst : Bytes) (proto len : Nat) (hs : src.length = 4) (hd : dst.length = 4)
    (hp : proto < 256) (hl : len < 65536) :
    pseudoSum src dst proto len = wsum (pseudo4 src dst proto len) := by
  unfold pseudoSum pseudo4
  rw [List.append_assoc, wsum_append_even _ _ (by omega), wsum_append_even _ _ (by omega),
    sumWords_wsum, sumWords_wsum]
  simp [wsum]
  omega

theorem pseudoSum_pseudo6 (src dst : Bytes) (proto len : Nat) (hs : src.length = 16) (hd : dst.length = 16)
    (hp : proto < 256) (hl : len < 65536) :
    pseudoSum src dst proto len = wsum (pseudo6 src dst proto len) := by
  unfold pseudoSum pseudo6
  rw [List.append_assoc, wsum_append_even _ _ (by omega), wsum_append_even _ _ (by omega),
    sumWords_wsum, sumWords_wsum]
  simp [wsum]
  omega

/-! ### ICMP -/

theorem icmp4Repl_shape (ci : ClientInfo) (p : Bytes) (evs : List Ev) (r : Bytes)
    (h : icmp4Repl ci p = (evs, some r)) : ∃ t, r = 0 :: 0 :: 0 :: 0 :: t := by
  simp only [icmp4Repl] at h
  repeat' split at h
  all_goals simp only [Prod.mk.injEq, Option.some.injEq, reduceCtorEq, and_false] at h
  exact ⟨_, h.2.symm⟩

theorem icmpWf (x : UInt8) (t : Bytes) (pre : Bytes) (hpre : pre.length % 2 = 0) :
    (setU16 (x :: 0 :: 0 :: 0 :: t) 2 (finalize (wsum pre + wsum (x :: 0 :: 0 :: 0 :: t)))).length ≥ 4 ∧
    u8 (setU16 (x :: 0 :: 0 :: 0 :: t) 2 (finalize (wsum pre + wsum (x :: 0 :: 0 :: 0 :: t)))) 0 = x.toNat ∧
    csumOk (pre ++ setU16 (x :: 0 :: 0 :: 0 :: t) 2 (finalize (wsum pre + wsum (x :: 0 :: 0 :: 0 :: t)))) = true := by
  refine ⟨?_, ?_, ?_⟩
  · simp [setU16, u16be]
  · simp [setU16, u16be, u8]
  · apply csumOk_insert <;> simp [hpre]

theorem icmp6Repl_shape (cfg : Cfg) (ci : ClientInfo) (p : Bytes) (evs : List Ev) (r : Bytes)
    (tgt : Option Bytes) (h : icmp6Repl cfg ci p = (evs, some (r, tgt))) :
    (∃ x t, r = x :: 0 :: 0 :: 0 :: t) ∧ ∀ tg, tgt = some tg → tg.length = 16 := by
  simp only [icmp6Repl] at h
  repeat' split at h
  all_goals simp only [Prod.mk.injEq, Option.some.injEq, reduceCtorEq, and_false] at h
  · obtain ⟨-, rfl, rfl⟩ := h
    refine ⟨⟨_, _, rfl⟩, ?_⟩
    intro tg htg
    simp only [Option.some.injEq] at htg
    subst htg
    apply slice_length; omega
  all_goals
    obtain ⟨-, rfl, rfl⟩ := h
    exact ⟨⟨_, _, rfl⟩, by simp⟩

/-! ### TCP -/

theorem tcpRepl_shape (cfg : Cfg) (env : Env) (st : Table) (ci : ClientInfo) (p : Bytes)
    (evs : List Ev) (ci' : ClientInfo) (st' : Table) (r : Bytes)
    (h : tcpRepl cfg env st ci p = .ok (evs, ci', st', some r)) :
    ∃ sp dp sq ak fl pl, r = tcpHdr sp dp sq ak fl ++ pl := by
  simp only [tcpRepl] at h
  repeat' split at h
  all_goals first
    | (simp only [Except.ok.injEq, Prod.mk.injEq, Option.some.injEq, reduceCtorEq, and_false] at h; done)
    | (simp only [Except.ok.injEq, Prod.mk.injEq, Option.some.injEq] at h
       exact ⟨_, _, _, _, _, _, h.2.2.2.symm⟩)

theorem tcpHdr_length (sp dp sq ak fl : Nat) : (tcpHdr sp dp sq ak fl).length = 20 := by
  simp [tcpHdr, u16be, u32be]

theorem tcpWf_intro (pre : Bytes) (hpre : pre.length % 2 = 0) (sp dp sq ak fl : Nat) (pl : Bytes) :
    tcpWf pre (setU16 (tcpHdr sp dp sq ak fl ++ pl) 16
      (finalize (wsum pre + wsum (tcpHdr sp dp sq ak fl ++ pl)))) = true := by
  have hck := csumOk_insert pre (tcpHdr sp dp sq ak fl ++ pl) 16 hpre (by omega)
    (by simp [tcpHdr, u16be, u32be]) (by simp [tcpHdr, u16be, u32be]) (by simp [tcpHdr, u16be, u32be])
  generalize finalize (wsum pre + wsum (tcpHdr sp dp sq ak fl ++ pl)) = c at *
  unfold tcpWf
  rw [hck]
  have hdoff : u8 (setU16 (tcpHdr sp dp sq ak fl ++ pl) 16 c) 12 / 16 = 5 := by
    simp [tcpHdr, u16be, u32be, setU16, u8, byte_toNat]; omega
  have hwin : be16 (setU16 (tcpHdr sp dp sq ak fl ++ pl) 16 c) 14 = 65535 := by
    simp [tcpHdr, u16be, u32be, setU16, u8, be16]
  have hlen : (setU16 (tcpHdr sp dp sq ak fl ++ pl) 16 c).length = 20 + pl.length := by
    simp [tcpHdr, u16be, u32be, setU16]; omega
  simp only [hdoff, hwin, hlen]
  simp

/-! ### UDP -/

theorem udpRepl_shape (cfg : Cfg) (env : Env) (ci : ClientInfo) (p : Bytes)
    (evs : List Ev) (ci' : ClientInfo) (r : Bytes)
    (h : udpRepl cfg env ci p = .ok (evs, ci', some r)) :
    ∃ a b pl, r = u16be a ++ u16be b ++ u16be ((8 + pl.length) % 65536) ++ [0, 0] ++ pl := by
  simp only [udpRepl] at h
  repeat' split at h
  all_goals first
    | (simp only [Except.ok.injEq, Prod.mk.injEq, Option.some.injEq, reduceCtorEq, and_false] at h; done)
    | (simp only [Except.ok.injEq, Prod.mk.injEq, Option.some.injEq] at h
       exact ⟨_, _, _, h.2.2.symm⟩)

theorem udp_shape_length (a b : Nat) (pl : Bytes) :
    (u16be a ++ u16be b ++ u16be ((8 + pl.length) % 65536) ++ [0, 0] ++ pl).length = 8 + pl.length := by
  simp [u16be]; omega

/-- generic: a UDP datagram of the model's shape with any 16-bit value `c` written into the checksum field -/
theorem udp_fields (a b c : Nat) (pl : Bytes) (hl : 8 + pl.length ≤ 65535) (hc : c < 65536) :
    let u := setU16 (u16be a ++ u16be b ++ u16be ((8 + pl.length) % 65536) ++ [0, 0] ++ pl) 6 c
    u.length = 8 + pl.length ∧ be16 u 4 = 8 + pl.length ∧ be16 u 6 = c := by
  refine ⟨?_, ?_, ?_⟩
  · simp [u16be, setU16]; omega
  · simp [u16be, setU16, be16, u8, byte_toNat]; omega
  · simp [u16be, setU16, be16, u8, byte_toNat]; omega

/-- UDP over IPv4: the computed checksum is written as is (0 = "no checksum" is allowed) -/
theorem udpWf_intro4 (pre : Bytes) (hpre : pre.length % 2 = 0) (a b : Nat) (pl : Bytes)
    (hl : 8 + pl.length ≤ 65535) :
    udpWf pre (setU16 (u16be a ++ u16be b ++ u16be ((8 + pl.length) % 65536) ++ [0, 0] ++ pl) 6
      (finalize (wsum pre + wsum (u16be a ++ u16be b ++ u16be ((8 + pl.length) % 65536) ++ [0, 0] ++ pl))))
      true = true := by
  have hck := csumOk_insert pre (u16be a ++ u16be b ++ u16be ((8 + pl.length) % 65536) ++ [0, 0] ++ pl) 6
    hpre (by omega) (by simp [u16be]) (by simp [u16be]) (by simp [u16be])
  have hf := udp_fields a b _ pl hl (finalize_lt
    (wsum pre + wsum (u16be a ++ u16be b ++ u16be ((8 + pl.length) % 65536) ++ [0, 0] ++ pl)))
  generalize finalize (wsum pre + wsum (u16be a ++ u16be b ++ u16be ((8 + pl.length) % 65536) ++ [0, 0] ++ pl))
    = c at *
  obtain ⟨h1, h2, h3⟩ := hf
  unfold udpWf
  rw [hck, h1, h2, h3]
  simp

/-- UDP over IPv6: a computed checksum of 0 is transmitted as 0xFFFF, the field is never 0 -/
theorem udpWf_intro6 (pre : Bytes) (hpre : pre.length % 2 = 0) (a b : Nat) (pl : Bytes)
    (hl : 8 + pl.length ≤ 65535) :
    udpWf pre (setU16 (u16be a ++ u16be b ++ u16be ((8 + pl.length) % 65536) ++ [0, 0] ++ pl) 6
      (if finalize (wsum pre + wsum (u16be a ++ u16be b ++ u16be ((8 + pl.length) % 65536) ++ [0, 0] ++ pl)) = 0
       then 65535
       else finalize (wsum pre + wsum (u16be a ++ u16be b ++ u16be ((8 + pl.length) % 65536) ++ [0, 0] ++ pl))))
      false = true := by
  split
  · rename_i hz
    have hck := csumOk_insert_ffff pre (u16be a ++ u16be b ++ u16be ((8 + pl.length) % 65536) ++ [0, 0] ++ pl) 6
      hpre (by omega) (by simp [u16be]) (by simp [u16be]) (by simp [u16be]) hz
    obtain ⟨h1, h2, h3⟩ := udp_fields a b 65535 pl hl (by omega)
    unfold udpWf
    rw [hck, h1, h2, h3]
    simp
  · rename_i hnz
    have hck := csumOk_insert pre (u16be a ++ u16be b ++ u16be ((8 + pl.length) % 65536) ++ [0, 0] ++ pl) 6
      hpre (by omega) (by simp [u16be]) (by simp [u16be]) (by simp [u16be])
    have hf := udp_fields a b _ pl hl (finalize_lt
      (wsum pre + wsum (u16be a ++ u16be b ++ u16be ((8 + pl.length) % 65536) ++ [0, 0] ++ pl)))
    generalize finalize (wsum pre + wsum (u16be a ++ u16be b ++ u16be ((8 + pl.length) % 65536) ++ [0, 0] ++ pl))
      = c at *
    obtain ⟨h1, h2, h3⟩ := hf
    unfold udpWf
    rw [hck, h1, h2, h3]
    simp [hnz]

/-! ### IPv4 header -/

theorem ipv4Hdr_facts (src dst : Bytes) (proto total : Nat) (hs : src.length = 4) (hd : dst.length = 4)
    (hp : proto < 256) (ht : total < 65536) :
    (ipv4Hdr src dst proto total).length = 20 ∧ u8 (ipv4Hdr src dst proto total) 0 = 0x45 ∧
    be16 (ipv4Hdr src dst proto total) 2 = total ∧ be16 (ipv4Hdr src dst proto total) 6 = 0x4000 ∧
    u8 (ipv4Hdr src dst proto total) 8 = 64 ∧ u8 (ipv4Hdr src dst proto total) 9 = proto ∧
    Spec.sub (ipv4Hdr src dst proto total) 12 4 = src ∧ Spec.sub (ipv4Hdr src dst proto total) 16 4 = dst ∧
    csumOk (ipv4Hdr src dst proto total) = true := by
  obtain ⟨a, b, c, d, rfl⟩ := len4 src hs
  obtain ⟨e, f, g, h, rfl⟩ := len4 dst hd
  refine ⟨?_, ?_, ?_, ?_, ?_, ?_, ?_, ?_, ?_⟩
  · simp [ipv4Hdr, setU16, u16be]
  · simp [ipv4Hdr, setU16, u16be, u8]
  · simp [ipv4Hdr, setU16, u16be, u8, be16, byte_toNat]; omega
  · simp [ipv4Hdr, setU16, u16be, u8, be16]
  · simp [ipv4Hdr, setU16, u16be, u8]
  · simp [ipv4Hdr, setU16, u16be, u8, byte_toNat]; omega
  · simp [ipv4Hdr, setU16, u16be, Spec.sub]
  · simp [ipv4Hdr, setU16, u16be, Spec.sub]
  · unfold ipv4Hdr
    apply csumOk_insert_plain <;> simp [u16be]

/-- an IPv4 reply packet `ipv4Hdr … ++ l4` is well-formed as soon as its L4 part is -/
theorem ipv4Wf_intro (src dst l4 : Bytes) (proto : Nat) (hs : src.length = 4) (hd : dst.length = 4)
    (hp : proto < 256) (hl : 20 + l4.length ≤ 65535)
    (hl4 : (if proto = 1 then l4.length ≥ 4 && csumOk l4
            else if proto = 6 then tcpWf (pseudo4 src dst 6 l4.length) l4
            else if proto = 17 then udpWf (pseudo4 src dst 17 l4.length) l4 true
            else false) = true) :
    ipv4Wf (ipv4Hdr src dst proto (20 + l4.length) ++ l4) = true := by
  obtain ⟨f1, f2, f3, f4, f5, f6, f7, f8, f9⟩ := ipv4Hdr_facts src dst proto (20 + l4.length) hs hd hp (by omega)
  generalize ipv4Hdr src dst proto (20 + l4.length) = h at *
  unfold ipv4Wf
  rw [u8_append_left h l4 0 (by omega), be16_append_left h l4 2 (by omega), be16_append_left h l4 6 (by omega),
    u8_append_left h l4 8 (by omega), u8_append_left h l4 9 (by omega),
    sub_append_left h l4 12 4 (by omega), sub_append_left h l4 16 4 (by omega), f2, f3, f4, f5, f6, f7, f8]
  have e1 : List.take 20 (h ++ l4) = h := by rw [← f1]; exact List.take_left
  have e2 : List.drop 20 (h ++ l4) = l4 := by rw [← f1]; exact List.drop_left
  simp only [show (69 % 16 * 4) = 20 from rfl, e1, e2, f9, hl4, List.length_append, f1]
  simp

/-! ### IPv6 header -/

theorem ipv6Hdr_facts (src dst : Bytes) (nh plen hlim : Nat) (hs : src.length = 16) (hd : dst.length = 16)
    (hn : nh < 256) (hpl : plen < 65536) (hh : hlim < 256) :
    (ipv6Hdr src dst nh plen hlim).length = 40 ∧ u8 (ipv6Hdr src dst nh plen hlim) 0 = 0x60 ∧
    be16 (ipv6Hdr src dst nh plen hlim) 4 = plen ∧ u8 (ipv6Hdr src dst nh plen hlim) 6 = nh ∧
    u8 (ipv6Hdr src dst nh plen hlim) 7 = hlim ∧
    Spec.sub (ipv6Hdr src dst nh plen hlim) 8 16 = src ∧ Spec.sub (ipv6Hdr src dst nh plen hlim) 24 16 = dst := by
  obtain ⟨a0, a1, a2, a3, a4, a5, a6, a7, a8, a9, a10, a11, a12, a13, a14, a15, rfl⟩ := len16 src hs
  obtain ⟨b0, b1, b2, b3, b4, b5, b6, b7, b8, b9, b10, b11, b12, b13, b14, b15, rfl⟩ := len16 dst hd
  refine ⟨?_, ?_, ?_, ?_, ?_, ?_, ?_⟩
  · simp [ipv6Hdr, u16be]
  · simp [ipv6Hdr, u16be, u8]
  · simp [ipv6Hdr, u16be, u8, be16, byte_toNat]; omega
  · simp [ipv6Hdr, u16be, u8, byte_toNat]; omega
  · simp [ipv6Hdr, u16be, u8, byte_toNat]; omega
  · simp [ipv6Hdr, u16be, Spec.sub]
  · simp [ipv6Hdr, u16be, Spec.sub]

/-- an IPv6 reply packet `ipv6Hdr … ++ l4` is well-formed as soon as its L4 part is -/
theorem ipv6Wf_intro (src dst l4 : Bytes) (nh hlim : Nat) (hs : src.length = 16) (hd : dst.length = 16)
    (hn : nh < 256) (hh : hlim < 256) (hh1 : 1 ≤ hlim) (hl : l4.length ≤ 65535)
    (hl4 : (if nh = 58 then
              l4.length ≥ 4 && csumOk (pseudo6 src dst 58 l4.length ++ l4) &&
              (if u8 l4 0 = 136 then decide (hlim = 255) else true)
            else if nh = 6 then tcpWf (pseudo6 src dst 6 l4.length) l4
            else if nh = 17 then udpWf (pseudo6 src dst 17 l4.length) l4 false
            else false) = true) :
    ipv6Wf (ipv6Hdr src dst nh l4.length hlim ++ l4) = true := by
  obtain ⟨f1, f2, f3, f4, f5, f6, f7⟩ := ipv6Hdr_facts src dst nh l4.length hlim hs hd hn (by omega) hh
  generalize ipv6Hdr src dst nh l4.length hlim = h at *
  unfold ipv6Wf
  rw [u8_append_left h l4 0 (by omega), be16_append_left h l4 4 (by omega), u8_append_left h l4 6 (by omega),
    u8_append_left h l4 7 (by omega),
    sub_append_left h l4 8 16 (by omega), sub_append_left h l4 24 16 (by omega), f2, f3, f4, f5, f6, f7]
  have e2 : List.drop 40 (h ++ l4) = l4 := by rw [← f1]; exact List.drop_left
  simp only [e2, List.length_append, f1]
  simp only [Bool.and_eq_true, decide_eq_true_eq]
  exact ⟨⟨⟨⟨by omega, trivial⟩, by omega⟩, hh1⟩, hl4⟩

/-! ### bridging the model's checksum calls to the spec's pseudo-headers; layer 3 -/

theorem csumPseudo_eq4 (src dst r : Bytes) (proto : Nat) (hs : src.length = 4) (hd : dst.length = 4)
    (hp : proto < 256) (hl : r.length < 65536) :
    csumPseudo src dst proto r = finalize (wsum (pseudo4 src dst proto r.length) + wsum r) := by
  unfold csumPseudo
  rw [pseudoSum_pseudo4 src dst proto r.length hs hd hp hl, sumWords_wsum]

theorem csumPseudo_eq6 (src dst r : Bytes) (proto : Nat) (hs : src.length = 16) (hd : dst.length = 16)
    (hp : proto < 256) (hl : r.length < 65536) :
    csumPseudo src dst proto r = finalize (wsum (pseudo6 src dst proto r.length) + wsum r) := by
  unfold csumPseudo
  rw [pseudoSum_pseudo6 src dst proto r.length hs hd hp hl, sumWords_wsum]

theorem csumPseudo_comm (a b r : Bytes) (proto : Nat) : csumPseudo a b proto r = csumPseudo b a proto r := by
  unfold csumPseudo; rw [pseudoSum_comm]

theorem icmp4_l4Wf (t : Bytes) :
    (setU16 (0 :: 0 :: 0 :: 0 :: t) 2 (csumPlain (0 :: 0 :: 0 :: 0 :: t))).length ≥ 4 ∧
    csumOk (setU16 (0 :: 0 :: 0 :: 0 :: t) 2 (csumPlain (0 :: 0 :: 0 :: 0 :: t))) = true := by
  refine ⟨?_, ?_⟩
  · simp [setU16, u16be]
  · apply csumOk_insert_plain <;> simp

theorem icmp6_l4Wf (src dst : Bytes) (hs : src.length = 16) (hd : dst.length = 16) (x : UInt8) (t : Bytes)
    (hl : (x :: 0 :: 0 :: 0 :: t).length < 65536) :
    (setU16 (x :: 0 :: 0 :: 0 :: t) 2 (csumPseudo src dst 58 (x :: 0 :: 0 :: 0 :: t))).length ≥ 4 ∧
    u8 (setU16 (x :: 0 :: 0 :: 0 :: t) 2 (csumPseudo src dst 58 (x :: 0 :: 0 :: 0 :: t))) 0 = x.toNat ∧
    csumOk (pseudo6 src dst 58 (setU16 (x :: 0 :: 0 :: 0 :: t) 2 (csumPseudo src dst 58 (x :: 0 :: 0 :: 0 :: t))).length
      ++ setU16 (x :: 0 :: 0 :: 0 :: t) 2 (csumPseudo src dst 58 (x :: 0 :: 0 :: 0 :: t))) = true := by
  rw [setU16_length _ _ _ (by simp), csumPseudo_eq6 src dst _ 58 hs hd (by omega) hl]
  exact icmpWf x t _ (by rw [pseudo6_length _ _ _ _ hs hd])

theorem tcp_l4Wf4 (src dst : Bytes) (hs : src.length = 4) (hd : dst.length = 4) (sp dp sq ak fl : Nat)
    (pl : Bytes) (hl : (tcpHdr sp dp sq ak fl ++ pl).length < 65536) :
    tcpWf (pseudo4 src dst 6 (setU16 (tcpHdr sp dp sq ak fl ++ pl) 16
        (csumPseudo src dst 6 (tcpHdr sp dp sq ak fl ++ pl))).length)
      (setU16 (tcpHdr sp dp sq ak fl ++ pl) 16 (csumPseudo src dst 6 (tcpHdr sp dp sq ak fl ++ pl))) = true := by
  rw [setU16_length _ _ _ (by simp [tcpHdr_length]; omega), csumPseudo_eq4 src dst _ 6 hs hd (by omega) hl]
  exact tcpWf_intro _ (by rw [pseudo4_length _ _ _ _ hs hd]) ..

theorem tcp_l4Wf6 (src dst : Bytes) (hs : src.length = 16) (hd : dst.length = 16) (sp dp sq ak fl : Nat)
    (pl : Bytes) (hl : (tcpHdr sp dp sq ak fl ++ pl).length < 65536) :
    tcpWf (pseudo6 src dst 6 (setU16 (tcpHdr sp dp sq ak fl ++ pl) 16
        (csumPseudo src dst 6 (tcpHdr sp dp sq ak fl ++ pl))).length)
      (setU16 (tcpHdr sp dp sq ak fl ++ pl) 16 (csumPseudo src dst 6 (tcpHdr sp dp sq ak fl ++ pl))) = true := by
  rw [setU16_length _ _ _ (by simp [tcpHdr_length]; omega), csumPseudo_eq6 src dst _ 6 hs hd (by omega) hl]
  exact tcpWf_intro _ (by rw [pseudo6_length _ _ _ _ hs hd]) ..

theorem udp_l4Wf4 (src dst : Bytes) (hs : src.length = 4) (hd : dst.length = 4) (a b : Nat) (pl : Bytes)
    (hl : 8 + pl.length ≤ 65535) :
    udpWf (pseudo4 src dst 17 (setU16 (u16be a ++ u16be b ++ u16be ((8 + pl.length) % 65536) ++ [0, 0] ++ pl) 6
        (csumPseudo src dst 17 (u16be a ++ u16be b ++ u16be ((8 + pl.length) % 65536) ++ [0, 0] ++ pl))).length)
      (setU16 (u16be a ++ u16be b ++ u16be ((8 + pl.length) % 65536) ++ [0, 0] ++ pl) 6
        (csumPseudo src dst 17 (u16be a ++ u16be b ++ u16be ((8 + pl.length) % 65536) ++ [0, 0] ++ pl))) true
      = true := by
  have hlen := udp_shape_length a b pl
  rw [setU16_length _ _ _ (by omega), csumPseudo_eq4 src dst _ 17 hs hd (by omega) (by omega)]
  exact udpWf_intro4 _ (by rw [pseudo4_length _ _ _ _ hs hd]) _ _ _ hl

theorem udp_l4Wf6 (src dst : Bytes) (hs : src.length = 16) (hd : dst.length = 16) (a b : Nat) (pl : Bytes)
    (hl : 8 + pl.length ≤ 65535) :
    udpWf (pseudo6 src dst 17 (setU16 (u16be a ++ u16be b ++ u16be ((8 + pl.length) % 65536) ++ [0, 0] ++ pl) 6
        (if csumPseudo src dst 17 (u16be a ++ u16be b ++ u16be ((8 + pl.length) % 65536) ++ [0, 0] ++ pl) = 0
         then 65535
         else csumPseudo src dst 17 (u16be a ++ u16be b ++ u16be ((8 + pl.length) % 65536) ++ [0, 0] ++ pl))).length)
      (setU16 (u16be a ++ u16be b ++ u16be ((8 + pl.length) % 65536) ++ [0, 0] ++ pl) 6
        (if csumPseudo src dst 17 (u16be a ++ u16be b ++ u16be ((8 + pl.length) % 65536) ++ [0, 0] ++ pl) = 0
         then 65535
         else csumPseudo src dst 17 (u16be a ++ u16be b ++ u16be ((8 + pl.length) % 65536) ++ [0, 0] ++ pl))) false
      = true := by
  have hlen := udp_shape_length a b pl
  rw [setU16_length _ _ _ (by omega), csumPseudo_eq6 src dst _ 17 hs hd (by omega) (by omega)]
  exact udpWf_intro6 _ (by rw [pseudo6_length _ _ _ _ hs hd]) _ _ _ hl

theorem ipv4Repl_wf (cfg : Cfg) (env : Env) (st : Table) (ci : ClientInfo) (p : Bytes)
    (evs : List Ev) (ci' : ClientInfo) (st' : Table) (r : Bytes) (hp : p.length ≥ 20)
    (h : ipv4Repl cfg env st ci p = .ok (evs, ci', st', some r)) : ipv4Wf r = true := by
  have hs : (slice p 12 4).length = 4 := slice_length _ _ _ (by omega)
  have hd : (slice p 16 4).length = 4 := slice_length _ _ _ (by omega)
  have hpr := at8_lt p 9
  simp only [ipv4Repl] at h
  generalize slice p 12 4 = src at *
  generalize slice p 16 4 = dst at *
  generalize at8 p 9 = proto at *
  generalize ipv4Payload p = pl at *
  repeat' split at h
  all_goals try (simp only [Except.ok.injEq, Prod.mk.injEq, Option.some.injEq, reduceCtorEq, and_false] at h; done)
  all_goals
    simp only [Except.ok.injEq, Prod.mk.injEq, Option.some.injEq] at h
    obtain ⟨-, -, -, rfl⟩ := h
  · -- ICMP echo reply
    rename_i hproto _ _ _ _ heq hlen
    obtain ⟨t, rfl⟩ := icmp4Repl_shape _ _ _ _ heq
    subst hproto
    apply ipv4Wf_intro _ _ _ _ hd hs (by omega) (by omega)
    have := icmp4_l4Wf t
    rw [if_pos rfl, this.2, Bool.and_true]
    exact decide_eq_true this.1
  · -- TCP
    rename_i _ hproto _ _ _ _ _ _ heq hlen
    obtain ⟨sp, dp, sq, ak, fl, pl', rfl⟩ := tcpRepl_shape _ _ _ _ _ _ _ _ _ heq
    subst hproto
    apply ipv4Wf_intro _ _ _ _ hd hs (by omega) (by omega)
    have hl := setU16_length (tcpHdr sp dp sq ak fl ++ pl') 16 (csumPseudo dst src 6 (tcpHdr sp dp sq ak fl ++ pl'))
      (by simp [tcpHdr_length]; omega)
    rw [if_neg (by decide), if_pos rfl]
    exact tcp_l4Wf4 dst src hd hs sp dp sq ak fl pl' (by omega)
  · -- UDP
    rename_i _ _ hproto _ _ _ _ _ heq hlen' hlen
    obtain ⟨a, b, pl', rfl⟩ := udpRepl_shape _ _ _ _ _ _ _ heq
    subst hproto
    apply ipv4Wf_intro _ _ _ _ hd hs (by omega) (by omega)
    have hl := udp_shape_length a b pl'
    rw [if_neg (by decide), if_neg (by decide), if_pos rfl]
    exact udp_l4Wf4 dst src hd hs a b pl' (by omega)

theorem ipv6Repl_wf (cfg : Cfg) (env : Env) (st : Table) (ci : ClientInfo) (p : Bytes)
    (evs : List Ev) (ci' : ClientInfo) (st' : Table) (r : Bytes) (hp : p.length ≥ 40)
    (h : ipv6Repl cfg env st ci p = .ok (evs, ci', st', some r)) : ipv6Wf r = true := by
  have hs : (slice p 8 16).length = 16 := slice_length _ _ _ (by omega)
  have hd : (slice p 24 16).length = 16 := slice_length _ _ _ (by omega)
  have hpr := at8_lt p 6
  simp only [ipv6Repl] at h
  generalize slice p 8 16 = src at *
  generalize slice p 24 16 = dst at *
  generalize at8 p 6 = nh at *
  generalize ipv6Payload p = pl at *
  repeat' split at h
  all_goals try (simp only [Except.ok.injEq, Prod.mk.injEq, Option.some.injEq, reduceCtorEq, and_false] at h; done)
  all_goals
    simp only [Except.ok.injEq, Prod.mk.injEq, Option.some.injEq] at h
    obtain ⟨-, -, -, rfl⟩ := h
  · -- ICMPv6 Neighbour Advertisement (first byte 136): hop limit 255
    rename_i hnh _ _ _ _ tgt heq hlen h136
    obtain ⟨⟨x, t, rfl⟩, htg⟩ := icmp6Repl_shape _ _ _ _ _ _ heq
    subst hnh
    have hf : (tgt.getD dst).length = 16 := by
      cases tgt with
      | none => exact hd
      | some tg => exact htg tg rfl
    generalize tgt.getD dst = from_ at *
    rw [csumPseudo_comm] at hlen ⊢
    have hl := setU16_length (x :: 0 :: 0 :: 0 :: t) 2 (csumPseudo from_ src 58 (x :: 0 :: 0 :: 0 :: t)) (by simp)
    obtain ⟨w1, w2, w3⟩ := icmp6_l4Wf from_ src hf hs x t (by omega)
    apply ipv6Wf_intro _ _ _ _ _ hf hs (by omega) (by omega) (by omega) (by omega)
    rw [if_pos rfl, w3, w2]
    simp only [decide_true, ite_self, Bool.and_true, decide_eq_true_eq]
    exact w1
  · -- ICMPv6 echo reply
    rename_i hnh _ _ _ _ tgt heq hlen h136
    obtain ⟨⟨x, t, rfl⟩, htg⟩ := icmp6Repl_shape _ _ _ _ _ _ heq
    subst hnh
    have hf : (tgt.getD dst).length = 16 := by
      cases tgt with
      | none => exact hd
      | some tg => exact htg tg rfl
    generalize tgt.getD dst = from_ at *
    rw [csumPseudo_comm] at hlen ⊢
    have hl := setU16_length (x :: 0 :: 0 :: 0 :: t) 2 (csumPseudo from_ src 58 (x :: 0 :: 0 :: 0 :: t)) (by simp)
    obtain ⟨w1, w2, w3⟩ := icmp6_l4Wf from_ src hf hs x t (by omega)
    apply ipv6Wf_intro _ _ _ _ _ hf hs (by omega) (by omega) (by omega) (by omega)
    have hx : ¬ x.toNat = 136 := by simpa [at8] using h136
    rw [if_pos rfl, w3, w2, if_neg hx]
    simp only [Bool.and_true, decide_eq_true_eq]
    exact w1
  · -- TCP
    rename_i _ hnh _ _ _ _ _ _ heq hlen
    obtain ⟨sp, dp, sq, ak, fl, pl', rfl⟩ := tcpRepl_shape _ _ _ _ _ _ _ _ _ heq
    subst hnh
    have hl := setU16_length (tcpHdr sp dp sq ak fl ++ pl') 16 (csumPseudo dst src 6 (tcpHdr sp dp sq ak fl ++ pl'))
      (by simp [tcpHdr_length]; omega)
    apply ipv6Wf_intro _ _ _ _ _ hd hs (by omega) (by omega) (by omega) (by omega)
    rw [if_neg (by decide), if_pos rfl]
    exact tcp_l4Wf6 dst src hd hs sp dp sq ak fl pl' (by omega)
  · -- UDP, computed checksum 0 → 0xFFFF
    rename_i _ _ hnh _ _ _ _ _ heq hz hlen
    obtain ⟨a, b, pl', rfl⟩ := udpRepl_shape _ _ _ _ _ _ _ heq
    subst hnh
    have hl := udp_shape_length a b pl'
    have hl' := setU16_length (u16be a ++ u16be b ++ u16be ((8 + pl'.length) % 65536) ++ [0, 0] ++ pl') 6 65535
      (by omega)
    apply ipv6Wf_intro _ _ _ _ _ hd hs (by omega) (by omega) (by omega) (by omega)
    rw [if_neg (by decide), if_neg (by decide), if_pos rfl]
    have := udp_l4Wf6 dst src hd hs a b pl' (by omega)
    rw [if_pos hz] at this
    exact this
  · -- UDP, non-zero checksum
    rename_i _ _ hnh _ _ _ _ _ heq hz hlen
    obtain ⟨a, b, pl', rfl⟩ := udpRepl_shape _ _ _ _ _ _ _ heq
    subst hnh
    have hl := udp_shape_length a b pl'
    have hl' := setU16_length (u16be a ++ u16be b ++ u16be ((8 + pl'.length) % 65536) ++ [0, 0] ++ pl') 6
      (csumPseudo dst src 17 (u16be a ++ u16be b ++ u16be ((8 + pl'.length) % 65536) ++ [0, 0] ++ pl')) (by omega)
    apply ipv6Wf_intro _ _ _ _ _ hd hs (by omega) (by omega) (by omega) (by omega)
    rw [if_neg (by decide), if_neg (by decide), if_pos rfl]
    have := udp_l4Wf6 dst src hd hs a b pl' (by omega)
    rw [if_neg hz] at this
    exact this
/-! ### layer 2 -/

theorem arpRepl_length (cfg : Cfg) (p : Bytes) (evs : List Ev) (r : Bytes) (hm : cfg.mac.length = 6)
    (hp : p.length ≥ 28) (h : arpRepl cfg p = (evs, some r)) : r.length ≥ 28 := by
  simp only [arpRepl] at h
  repeat' split at h
  all_goals simp only [Prod.mk.injEq, Option.some.injEq, reduceCtorEq, and_false] at h
  obtain ⟨-, rfl⟩ := h
  simp [slice, hm]
  omega

/-- an Ethernet reply `dst ++ src ++ ethertype ++ l3` with 6-byte addresses -/
theorem eth_frame (a b l3 : Bytes) (ety : Nat) (ha : a.length = 6) (hb : b.length = 6) (he : ety < 65536) :
    (a ++ b ++ u16be ety ++ l3).length ≥ 14 ∧ be16 (a ++ b ++ u16be ety ++ l3) 12 = ety ∧
    (a ++ b ++ u16be ety ++ l3).drop 14 = l3 := by
  obtain ⟨a0, a1, a2, a3, a4, a5, rfl⟩ := len6 a ha
  obtain ⟨b0, b1, b2, b3, b4, b5, rfl⟩ := len6 b hb
  refine ⟨?_, ?_, ?_⟩
  · simp [u16be]
  · simp [u16be, be16, u8, byte_toNat]; omega
  · simp [u16be]

theorem ethRepl_wf (cfg : Cfg) (env : Env) (st : Table) (f : Bytes) (evs : List Ev) (st' : Table) (r : Bytes)
    (hm : cfg.mac.length = 6) (hf : f.length ≥ 14)
    (h : ethRepl cfg env st f = .ok (evs, st', some r)) : frameWf r = true := by
  have hs : (slice f 6 6).length = 6 := slice_length _ _ _ (by omega)
  simp only [ethRepl] at h
  generalize slice f 6 6 = srcM at *
  generalize hety : rdBE (slice f 12 2) = ety at *
  repeat' split at h
  all_goals try (simp only [Except.ok.injEq, Prod.mk.injEq, Option.some.injEq, reduceCtorEq, and_false] at h; done)
  all_goals
    simp only [Except.ok.injEq, Prod.mk.injEq, Option.some.injEq] at h
    obtain ⟨-, -, rfl⟩ := h
  · -- ARP
    rename_i hety' hlen _ _ _ heq
    subst hety'
    obtain ⟨e1, e2, e3⟩ := eth_frame srcM cfg.mac ‹Bytes› 2054 hs hm (by omega)
    have := arpRepl_length _ _ _ _ hm (by omega) heq
    unfold frameWf
    rw [e2, e3]
    simp only [if_true, decide_eq_true e1, Bool.true_and, decide_eq_true_eq]
    exact this
  · -- IPv4
    rename_i _ hety' hlen _ _ _ _ _ heq
    subst hety'
    obtain ⟨e1, e2, e3⟩ := eth_frame srcM cfg.mac ‹Bytes› 2048 hs hm (by omega)
    have := ipv4Repl_wf _ _ _ _ _ _ _ _ _ (by omega) heq
    unfold frameWf
    rw [e2, e3]
    simp only [decide_eq_true e1, Bool.true_and]
    rw [if_pos trivial]
    exact this
  · -- IPv6
    rename_i _ _ hety' hlen _ _ _ _ _ heq
    subst hety'
    obtain ⟨e1, e2, e3⟩ := eth_frame srcM cfg.mac ‹Bytes› 34525 hs hm (by omega)
    have := ipv6Repl_wf _ _ _ _ _ _ _ _ _ (by omega) heq
    unfold frameWf
    rw [e2, e3]
    simp only [decide_eq_true e1, Bool.true_and]
    rw [if_pos trivial]
    exact this

/-- C04 `reply_wf` (statement and proof of Thm/C04.lean) -/
theorem reply_wf (cfg : Cfg) (env : Env) (st : Table) (f r : Bytes) (hm : cfg.mac.length = 6)
    (h : (step cfg env st f).out = .ok (some r)) : Spec.frameWf r = true := by
  unfold step at h
  split at h
  · simp at h
  · split at h
    · simp at h
    · rename_i heq
      simp only [Except.ok.injEq] at h
      subst h
      exact ethRepl_wf _ _ _ _ _ _ _ hm (by omega) heq

end Masscanned.E2E.WfC
