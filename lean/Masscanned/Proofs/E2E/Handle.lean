/-
  Proofs/E2E/Handle — the arms of `protoHandle` (the handler call of `proto::repl`) for each protocol
  id, the SYN-cookie gate, dispatch of a datagram / first segment from the stream identification,
  and two small facts about Binding Requests and record marks.  Used by Thm/C10E2E*.
-/
import Masscanned.Proofs.E2E.StunIff
import Masscanned.Thm.C15
open Masscanned
namespace Masscanned.E2E
open Masscanned.Spec

/-- the SYN-cookie gate of `proto::repl` is open -/
abbrev Gate (ci : ClientInfo) : Prop := ¬(ci.transport = some 6 ∧ ci.cookie = none)

/-! ### the handler arms -/

theorem handle_http_none (cfg : Cfg) (env : Env) (ci : ClientInfo) (d : Bytes) :
    protoHandle cfg env ID_HTTP ci none d =
      match httpRepl env {} d with
      | .error e => .error e
      | .ok (_, r) => .ok (ci, none, r) := by
  simp only [protoHandle, ID_HTTP, PROTO_HTTP, if_true]
  cases httpRepl env {} d <;> rfl

theorem handle_http_fresh (cfg : Cfg) (env : Env) (ci : ClientInfo) (st : Nat) (d : Bytes) :
    protoHandle cfg env ID_HTTP ci (some { ({} : Tcb) with protoId := ID_HTTP, smackState := st }) d =
      match httpRepl env {} d with
      | .error e => .error e
      | .ok (s', r) => .ok (ci, some { protoId := ID_HTTP, smackState := st, protoState := some (.http s') }, r) := by
  simp only [protoHandle, ID_HTTP, PROTO_HTTP, if_true]
  cases httpRepl env {} d <;> rfl

theorem handle_ssh (cfg : Cfg) (env : Env) (ci : ClientInfo) (tcb : Option Tcb) (d : Bytes) :
    protoHandle cfg env ID_SSH ci tcb d =
      match sshRepl d with
      | .error e => .error e
      | .ok r => .ok (ci, tcb, r) := by
  simp only [protoHandle, ID_SSH, PROTO_HTTP, PROTO_STUN, PROTO_SSH, Nat.reduceEqDiff, if_false, if_true]
  cases sshRepl d <;> rfl

theorem handle_stun (cfg : Cfg) (env : Env) (ci : ClientInfo) (tcb : Option Tcb) (d : Bytes) :
    protoHandle cfg env ID_STUN ci tcb d =
      match stunRepl ci d with
      | .error e => .error e
      | .ok (ci', r) => .ok (ci', tcb, r) := by
  simp only [protoHandle, ID_STUN, PROTO_HTTP, PROTO_STUN, Nat.reduceEqDiff, if_false, if_true]
  cases stunRepl ci d <;> rfl

theorem handle_rpc_udp (cfg : Cfg) (env : Env) (ci : ClientInfo) (tcb : Option Tcb) (d : Bytes) :
    protoHandle cfg env ID_RPC_UDP ci tcb d =
      match rpcReplUdp cfg.ovf ci d with
      | .error e => .error e
      | .ok r => .ok (ci, tcb, r) := by
  simp only [protoHandle, ID_RPC_UDP, PROTO_HTTP, PROTO_STUN, PROTO_SSH, PROTO_GHOST, PROTO_RPC_TCP,
    PROTO_RPC_UDP, Nat.reduceEqDiff, if_false, if_true]
  cases rpcReplUdp cfg.ovf ci d <;> rfl

theorem handle_rpc_tcp_fresh (cfg : Cfg) (env : Env) (ci : ClientInfo) (st : Nat) (d : Bytes) :
    protoHandle cfg env ID_RPC_TCP ci (some { ({} : Tcb) with protoId := ID_RPC_TCP, smackState := st }) d =
      match rpcReplTcp cfg.ovf {} ci d with
      | .error e => .error e
      | .ok (s', r) =>
        .ok (ci, some { protoId := ID_RPC_TCP, smackState := st, protoState := some (.rpc s') }, r) := by
  simp only [protoHandle, ID_RPC_TCP, PROTO_HTTP, PROTO_STUN, PROTO_SSH, PROTO_GHOST, PROTO_RPC_TCP,
    Nat.reduceEqDiff, if_false, if_true]
  cases rpcReplTcp cfg.ovf {} ci d <;> rfl

theorem handle_smb1 (cfg : Cfg) (env : Env) (ci : ClientInfo) (tcb : Option Tcb) (d : Bytes) :
    protoHandle cfg env ID_SMB1 ci tcb d = .ok (ci, tcb, smb1Repl env d) := by
  simp [protoHandle, ID_SMB1, PROTO_HTTP, PROTO_STUN, PROTO_SSH, PROTO_GHOST, PROTO_RPC_TCP, PROTO_RPC_UDP,
    PROTO_SMB1]

theorem handle_smb2 (cfg : Cfg) (env : Env) (ci : ClientInfo) (tcb : Option Tcb) (d : Bytes) :
    protoHandle cfg env ID_SMB2 ci tcb d = .ok (ci, tcb, smb2Repl env d) := by
  simp [protoHandle, ID_SMB2, PROTO_HTTP, PROTO_STUN, PROTO_SSH, PROTO_GHOST, PROTO_RPC_TCP, PROTO_RPC_UDP,
    PROTO_SMB1, PROTO_SMB2]

/-- dispatch of a datagram / of the first segment of a flow from the stream identification -/
theorem dispatch_both (cfg : Cfg) (env : Env) (ci : ClientInfo) (p : Bytes) (i : Nat) (hg : Gate ci)
    (h : refStreamK2 p = some i) :
    protoRepl cfg env ci none p = protoHandle cfg env i ci none p ∧
    ∃ st, protoRepl cfg env ci (some {}) p =
      protoHandle cfg env i ci (some { ({} : Tcb) with protoId := i, smackState := st }) p :=
  ⟨dispatch_datagram_K2 cfg env ci p i hg (refDatagramK2_of_stream p i h),
   dispatch_stream_K2 cfg env ci {} p i hg rfl rfl h⟩

/-- a Binding Request starts `00 01` and is at least 20 bytes long -/
theorem binding_facts {p : Bytes} {m : StunMsg} (hp : parseStun p = some m) (hc : m.cls = 0) (hm : m.method = 1) :
    20 ≤ p.length ∧ u8 p 0 = 0 ∧ u8 p 1 = 1 ∧ p.length = 20 + be16 p 2 := by
  obtain ⟨h20, _, hlen, _⟩ := parseStun_inv hp
  obtain ⟨h0, h1⟩ := C15.stun_binding_bytes hp hc hm
  exact ⟨h20, h0, h1, hlen⟩

/-- a last-fragment record mark satisfies the first-byte condition of `rpc_e2e_tcp` -/
theorem last_fragment_not_nine (p : Bytes) (h : 128 ≤ u8 p 0) (hl : 1 ≤ p.length) :
    nineBytes.contains (p.getD 0 1) = false := by
  rw [← getD_irrel p 0 0 1 (by omega)]
  unfold u8 at h
  generalize p.getD 0 0 = b at h
  have hs : ∀ c ∈ nineBytes, c.toNat < 128 := by decide
  cases hc : nineBytes.contains b with
  | false => rfl
  | true =>
    have := hs b (List.contains_iff_mem.mp hc)
    omega

end Masscanned.E2E
