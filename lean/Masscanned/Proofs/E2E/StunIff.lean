/-
  Proofs/E2E/StunIff — converse direction for STUN: what an identification as STUN by the compiled
  matcher (`Spec.refDatagramK2 p = some ID_STUN`) says about the bytes of `p`.
-/
import Masscanned.Proofs.E2E.Shadow
namespace Masscanned.E2E
open Masscanned Masscanned.Spec Masscanned.C10

theorem sub_eq_of_u8 (m : Bytes) (i : Nat) (l : Bytes) (hlen : i + l.length ≤ m.length)
    (h : ∀ j, j < l.length → Spec.u8 m (i + j) = (l.getD j 0).toNat) : Spec.sub m i l.length = l := by
  apply List.ext_getElem?
  intro j
  by_cases hj : j < l.length
  · have hm : i + j < m.length := by omega
    have := h j hj
    simp only [Spec.u8, List.getD_eq_getElem?_getD, List.getElem?_eq_getElem hm, List.getElem?_eq_getElem hj,
      Option.getD_some] at this
    simp only [Spec.sub, List.getElem?_take, hj, if_true, List.getElem?_drop, List.getElem?_eq_getElem hm,
      List.getElem?_eq_getElem hj]
    exact congrArg some (UInt8.toNat_inj.mp this)
  · have h1 : (Spec.sub m i l.length)[j]? = none := by
      apply List.getElem?_eq_none
      simp [Spec.sub]; omega
    rw [h1, List.getElem?_eq_none (by omega)]

/-! ### inversion of the reference functions -/

theorem findSome_range_inv {α : Type} (f : Nat → Option α) (N : Nat) (v : α)
    (h : (List.range N).findSome? f = some v) : ∃ n, f n = some v := by
  obtain ⟨n, _, hn⟩ := List.exists_of_findSome?_eq_some h
  exact ⟨n, hn⟩

theorem refStreamL_inv (L : List SigX) (s : Bytes) (i : Nat) (h : refStreamL L s = some i) :
    ∃ g ∈ L, g.id = i ∧ g.endAnchored = false ∧ prefixMatchX g.pat s = true := by
  unfold refStreamL at h
  obtain ⟨n, hn⟩ := findSome_range_inv _ _ _ h
  unfold completedAtL at hn
  cases hf : L.find? (fun g => !g.endAnchored && decide (g.pat.length = n) && decide (n ≤ s.length) &&
      prefixMatchX g.pat s) with
  | none => rw [hf] at hn; cases hn
  | some g =>
    rw [hf] at hn
    simp only [Option.map_some, Option.some.injEq] at hn
    have hp := List.find?_some hf
    simp only [Bool.and_eq_true, Bool.not_eq_true', decide_eq_true_eq] at hp
    exact ⟨g, List.mem_of_find?_eq_some hf, hn, hp.1.1.1, hp.2⟩

theorem refEndL_inv (L : List SigX) (s : Bytes) (i : Nat) (h : refEndL L s = some i) :
    ∃ g ∈ L, g.id = i ∧
      ((g.endAnchored = true ∧ g.pat.length = s.length ∧ prefixMatchX g.pat s = true) ∨
        oneShortOf g s = true) := by
  unfold refEndL at h
  cases hf : L.find? (fun g => (g.endAnchored && decide (g.pat.length = s.length) && prefixMatchX g.pat s) ||
      oneShortOf g s) with
  | none => rw [hf] at h; cases h
  | some g =>
    rw [hf] at h
    simp only [Option.map_some, Option.some.injEq] at h
    have hp := List.find?_some hf
    simp only [Bool.or_eq_true, Bool.and_eq_true, decide_eq_true_eq] at hp
    refine ⟨g, List.mem_of_find?_eq_some hf, h, ?_⟩
    rcases hp with hp | hp
    · exact .inl ⟨hp.1.1, hp.1.2, hp.2⟩
    · exact .inr hp

/-- the three STUN signatures of the compiled matcher -/
theorem stun_sigs_K2 : ∀ g ∈ sigsK2, g.id = ID_STUN →
    (g.pat = patStunK2 ∧ g.endAnchored = false) ∨ (g.pat = patStunA ∧ g.endAnchored = true) ∨
    (g.pat = patStunB ∧ g.endAnchored = true) := by decide +kernel

/-- a payload the compiled matcher identifies as STUN (as a datagram) has one of three shapes -/
theorem stun_ident_inv (p : Bytes) (h : refDatagramK2 p = some ID_STUN) :
    prefixMatchX patStunK2 p = true ∨ (p.length = 20 ∧ prefixMatchX patStunA p = true) ∨
    (p.length = 28 ∧ prefixMatchX patStunB p = true) := by
  unfold refDatagramK2 at h
  cases hs : refStreamK2 p with
  | some i =>
    rw [hs] at h
    simp only [Option.some.injEq] at h
    subst h
    rw [refStreamK2_eq] at hs
    obtain ⟨g, hg, hid, hna, hm⟩ := refStreamL_inv _ _ _ hs
    rcases stun_sigs_K2 g hg hid with ⟨e, _⟩ | ⟨_, e⟩ | ⟨_, e⟩
    · rw [e] at hm; exact .inl hm
    · rw [e] at hna; cases hna
    · rw [e] at hna; cases hna
  | none =>
    rw [hs] at h
    simp only at h
    rw [refEndK2_eq] at h
    obtain ⟨g, hg, hid, hcase⟩ := refEndL_inv _ _ _ h
    rcases stun_sigs_K2 g hg hid with ⟨e, ea⟩ | ⟨e, ea⟩ | ⟨e, ea⟩
    · rcases hcase with ⟨ha, _⟩ | ho
      · rw [ea] at ha; cases ha
      · exfalso
        simp only [oneShortOf, e, Bool.and_eq_true, decide_eq_true_eq] at ho
        exact absurd ho.1.1.2 (by decide)
    · rcases hcase with ⟨_, hl, hm⟩ | ho
      · rw [e] at hl hm
        exact .inr (.inl ⟨by rw [← hl]; rfl, hm⟩)
      · simp [oneShortOf, ea] at ho
    · rcases hcase with ⟨_, hl, hm⟩ | ho
      · rw [e] at hl hm
        exact .inr (.inr ⟨by rw [← hl]; rfl, hm⟩)
      · simp [oneShortOf, ea] at ho

/-- bytes of a payload matching the cookie signature of the compiled matcher -/
theorem patStunK2_inv (p : Bytes) (h : prefixMatchX patStunK2 p = true) :
    hasCookie p = true ∧ Spec.u8 p 2 ≠ 0 := by
  rw [pmX_eq] at h
  simp only [patStunK2, pmFrom, sym_lit, Bool.and_eq_true, decide_eq_true_eq] at h
  obtain ⟨hl, _, _, h2, _, h4, h5, h6, h7, _⟩ := h
  have hl8 : 8 ≤ p.length := by simpa using hl
  constructor
  · simp only [hasCookie, decide_eq_true_eq]
    refine sub_eq_of_u8 p 4 [0x21, 0x12, 0xa4, 0x42] (by simpa using hl8) ?_
    intro j hj
    have : j = 0 ∨ j = 1 ∨ j = 2 ∨ j = 3 := by simp at hj; omega
    rcases this with rfl | rfl | rfl | rfl
    · exact h4
    · exact h5
    · exact h6
    · exact h7
  · intro hz
    simp only [symMatchX, List.contains_cons, List.contains_nil, Bool.or_false, Bool.not_eq_true',
      beq_eq_false_iff_ne, ne_eq] at h2
    apply h2
    exact UInt8.toNat_inj.mp hz

theorem patStunB_inv (p : Bytes) (hl : p.length = 28) (h : prefixMatchX patStunB p = true) :
    Spec.sub p 20 7 = [0, 3, 0, 4, 0, 0, 0] := by
  rw [pmX_eq] at h
  simp only [patStunB, List.replicate, List.cons_append, List.nil_append, pmFrom, sym_lit] at h
  simp only [symMatchX, Bool.and_eq_true, decide_eq_true_eq, Bool.true_and, Bool.and_true] at h
  obtain ⟨_, _, _, _, _, h20, h21, h22, h23, h24, h25, h26⟩ := h
  refine sub_eq_of_u8 p 20 [0, 3, 0, 4, 0, 0, 0] (by rw [hl]; decide) ?_
  intro j hj
  have : j = 0 ∨ j = 1 ∨ j = 2 ∨ j = 3 ∨ j = 4 ∨ j = 5 ∨ j = 6 := by simp at hj; omega
  rcases this with rfl | rfl | rfl | rfl | rfl | rfl | rfl
  · exact h20
  · exact h21
  · exact h22
  · exact h23
  · exact h24
  · exact h25
  · exact h26

end Masscanned.E2E
