/-
  Proofs/E2E/Frame — frame level (`step`) for UDP: a deliverable UDP frame whose payload the
  application layer answers with `a` yields exactly one reply frame whose UDP payload is `a`
  (IPv4 and IPv6), provided `a` fits in a datagram (otherwise the Rust code panics: `udp_len`
  conversion / pnet `set_payload`).

  Delivery side: cited from Proofs/C12/Delivery (the namespaced copy of Proofs/Delivery that can be
  imported together with Proofs/Bytes and Proofs/C0203/Bytes).  Reply side ("how a receiver delimits
  the frames the model emits"): that part of Proofs/Delivery.lean is not in the C12 copy; it is
  reproduced here verbatim in namespace `Masscanned.E2E.Fr` for the same import reason.
-/
import Masscanned.Proofs.C12.Delivery
namespace Masscanned.E2E.Fr
open Masscanned Masscanned.C12


theorem u8_append_left {A B : Bytes} {i : Nat} (h : i < A.length) : Spec.u8 (A ++ B) i = Spec.u8 A i := by
  simp [Spec.u8, List.getD_eq_getElem?_getD, List.getElem?_append_left h]

theorem u8_append_right {A B : Bytes} {i : Nat} (h : A.length ≤ i) :
    Spec.u8 (A ++ B) i = Spec.u8 B (i - A.length) := by
  simp [Spec.u8, List.getD_eq_getElem?_getD, List.getElem?_append_right h]

theorem be16_append_left {A B : Bytes} {i : Nat} (h : i + 1 < A.length) :
    Spec.be16 (A ++ B) i = Spec.be16 A i := by
  simp [Spec.be16, u8_append_left (show i < A.length by omega), u8_append_left h]

theorem be16_append_right {A B : Bytes} {i : Nat} (h : A.length ≤ i) :
    Spec.be16 (A ++ B) i = Spec.be16 B (i - A.length) := by
  simp only [Spec.be16, u8_append_right h, u8_append_right (show A.length ≤ i + 1 by omega)]
  congr 2; omega

theorem byte_toNat' (n : Nat) : (byte n).toNat = n % 256 := by
  simp [byte]

theorem be16_u16be (n : Nat) (t : Bytes) : Spec.be16 (u16be n ++ t) 0 = n % 65536 := by
  simp [Spec.be16, Spec.u8, u16be, byte_toNat']
  omega

theorem l4Bytes_reply_v4 (E H L : Bytes) (hE : E.length = 14) (he : Spec.be16 E 12 = 0x0800)
    (hH : H.length = 20) (h0 : Spec.u8 H 0 % 16 = 5) (ht : Spec.be16 H 2 = 20 + L.length) :
    Spec.l4Bytes (E ++ (H ++ L)) = L := by
  have h12 : Spec.be16 (E ++ (H ++ L)) 12 = 0x0800 := by rw [be16_append_left (by omega)]; exact he
  have hd : (E ++ (H ++ L)).drop 14 = H ++ L := by
    rw [List.drop_append_of_le_length (by omega), ← hE]; simp
  have h0' : Spec.u8 (H ++ L) 0 % 16 = 5 := by rw [u8_append_left (by omega)]; exact h0
  have ht' : Spec.be16 (H ++ L) 2 = 20 + L.length := by rw [be16_append_left (by omega)]; exact ht
  simp only [Spec.l4Bytes, h12, if_true, hd, h0', ht']
  simp [hH]
  rw [List.take_of_length_le (by simp [hH]), List.drop_append_of_le_length (by omega), ← hH]; simp

theorem l4Bytes_reply_v6 (E H L : Bytes) (hE : E.length = 14) (he : Spec.be16 E 12 = 0x86dd)
    (hH : H.length = 40) (ht : Spec.be16 H 4 = L.length) :
    Spec.l4Bytes (E ++ (H ++ L)) = L := by
  have h12 : Spec.be16 (E ++ (H ++ L)) 12 = 0x86dd := by rw [be16_append_left (by omega)]; exact he
  have hd : (E ++ (H ++ L)).drop 14 = H ++ L := by
    rw [List.drop_append_of_le_length (by omega), ← hE]; simp
  have ht' : Spec.be16 (H ++ L) 4 = L.length := by rw [be16_append_left (by omega)]; exact ht
  simp only [Spec.l4Bytes, h12, hd, ht']
  simp [hH]
  rw [List.take_of_length_le (by simp [hH]), List.drop_append_of_le_length (by omega), ← hH]; simp


theorem ipv4Hdr_length (src dst : Bytes) (proto t : Nat) (hs : src.length = 4) (hd : dst.length = 4) :
    (ipv4Hdr src dst proto t).length = 20 := by
  simp [ipv4Hdr, setU16, u16be, hs, hd]

theorem ipv4Hdr_u8_0 (src dst : Bytes) (proto t : Nat) : Spec.u8 (ipv4Hdr src dst proto t) 0 = 0x45 := by
  simp [ipv4Hdr, setU16, u16be, Spec.u8]

theorem ipv4Hdr_u8_9 (src dst : Bytes) (proto t : Nat) : Spec.u8 (ipv4Hdr src dst proto t) 9 = proto % 256 := by
  simp [ipv4Hdr, setU16, u16be, Spec.u8, byte_toNat']

theorem ipv4Hdr_be16_2 (src dst : Bytes) (proto t : Nat) : Spec.be16 (ipv4Hdr src dst proto t) 2 = t % 65536 := by
  simp [ipv4Hdr, setU16, u16be, Spec.u8, Spec.be16, byte_toNat']
  omega

theorem ipv6Hdr_length (src dst : Bytes) (nh n hl : Nat) (hs : src.length = 16) (hd : dst.length = 16) :
    (ipv6Hdr src dst nh n hl).length = 40 := by
  simp [ipv6Hdr, u16be, hs, hd]

theorem ipv6Hdr_u8_0 (src dst : Bytes) (nh n hl : Nat) : Spec.u8 (ipv6Hdr src dst nh n hl) 0 = 0x60 := by
  simp [ipv6Hdr, u16be, Spec.u8]

theorem ipv6Hdr_u8_6 (src dst : Bytes) (nh n hl : Nat) : Spec.u8 (ipv6Hdr src dst nh n hl) 6 = nh % 256 := by
  simp [ipv6Hdr, u16be, Spec.u8, byte_toNat']

theorem ipv6Hdr_be16_4 (src dst : Bytes) (nh n hl : Nat) : Spec.be16 (ipv6Hdr src dst nh n hl) 4 = n % 65536 := by
  simp [ipv6Hdr, u16be, Spec.u8, Spec.be16, byte_toNat']
  omega

theorem ipv6Hdr_src (src dst : Bytes) (nh n hl : Nat) (hs : src.length = 16) :
    Spec.sub (ipv6Hdr src dst nh n hl) 8 16 = src := by
  simp [ipv6Hdr, u16be, Spec.sub, ← hs]


/-! Ethernet header of a reply -/

def ethHdr (cfg : Cfg) (f : Bytes) : Bytes := slice f 6 6 ++ cfg.mac ++ u16be (rdBE (slice f 12 2))

theorem ethWrap_eq (cfg : Cfg) (f l3 : Bytes) : ethWrap cfg f l3 = ethHdr cfg f ++ l3 := rfl

theorem slice_length (b : Bytes) (i n : Nat) (h : i + n ≤ b.length) : (slice b i n).length = n := by
  simp [slice]; omega

theorem be16_lt (b : Bytes) (i : Nat) : Spec.be16 b i < 65536 := by
  have h1 := (b.getD i 0).toNat_lt
  have h2 := (b.getD (i+1) 0).toNat_lt
  simp only [Spec.be16, Spec.u8]; omega

theorem ethHdr_length (cfg : Cfg) (f : Bytes) (hm : cfg.mac.length = 6) (hl : 12 ≤ f.length) :
    (ethHdr cfg f).length = 14 := by
  simp [ethHdr, slice_length f 6 6 (by omega), hm, u16be]

theorem ethHdr_be16 (cfg : Cfg) (f : Bytes) (hm : cfg.mac.length = 6) (hl : 14 ≤ f.length) :
    Spec.be16 (ethHdr cfg f) 12 = Spec.be16 f 12 := by
  unfold ethHdr
  rw [be16_append_right (by simp [slice_length f 6 6 (by omega), hm])]
  simp only [List.length_append, slice_length f 6 6 (by omega), hm, Nat.sub_self]
  have := be16_u16be (rdBE (slice f 12 2)) []
  simp only [List.append_nil] at this
  rw [this, rdBE_slice2 _ _ (by omega), Nat.mod_eq_of_lt (be16_lt f 12)]


/-! the whole reply frame, as a receiver reads it -/

theorem reply_v4_frame (cfg : Cfg) (f src dst L : Bytes) (proto : Nat) (hm : cfg.mac.length = 6)
    (hl : 14 ≤ f.length) (he : Spec.be16 f 12 = 0x0800) (hs : src.length = 4) (hd : dst.length = 4)
    (hL : 20 + L.length ≤ 65535) :
    (ethWrap cfg f (ipv4Hdr src dst proto (20 + L.length) ++ L)).length = 34 + L.length ∧
    Spec.be16 (ethWrap cfg f (ipv4Hdr src dst proto (20 + L.length) ++ L)) 12 = 0x0800 ∧
    Spec.u8 (ethWrap cfg f (ipv4Hdr src dst proto (20 + L.length) ++ L)) 14 = 0x45 ∧
    Spec.u8 (ethWrap cfg f (ipv4Hdr src dst proto (20 + L.length) ++ L)) 23 = proto % 256 ∧
    Spec.l4Bytes (ethWrap cfg f (ipv4Hdr src dst proto (20 + L.length) ++ L)) = L := by
  have hE := ethHdr_length cfg f hm (by omega)
  have hE2 := ethHdr_be16 cfg f hm hl
  have hH := ipv4Hdr_length src dst proto (20 + L.length) hs hd
  rw [ethWrap_eq]
  refine ⟨?_, ?_, ?_, ?_, ?_⟩
  · simp [hE, hH]; omega
  · rw [be16_append_left (by omega), hE2, he]
  · rw [u8_append_right (by omega), hE, u8_append_left (by omega)]; exact ipv4Hdr_u8_0 ..
  · rw [u8_append_right (by omega), hE, u8_append_left (by omega)]; exact ipv4Hdr_u8_9 ..
  · apply l4Bytes_reply_v4 _ _ _ hE (by rw [hE2, he]) hH
    · rw [ipv4Hdr_u8_0]
    · rw [ipv4Hdr_be16_2]; omega

theorem reply_v6_frame (cfg : Cfg) (f src dst L : Bytes) (nh hlim : Nat) (hm : cfg.mac.length = 6)
    (hl : 14 ≤ f.length) (he : Spec.be16 f 12 = 0x86dd) (hs : src.length = 16) (hd : dst.length = 16)
    (hL : L.length ≤ 65535) :
    (ethWrap cfg f (ipv6Hdr src dst nh L.length hlim ++ L)).length = 54 + L.length ∧
    Spec.be16 (ethWrap cfg f (ipv6Hdr src dst nh L.length hlim ++ L)) 12 = 0x86dd ∧
    Spec.u8 (ethWrap cfg f (ipv6Hdr src dst nh L.length hlim ++ L)) 14 = 0x60 ∧
    Spec.u8 (ethWrap cfg f (ipv6Hdr src dst nh L.length hlim ++ L)) 20 = nh % 256 ∧
    Spec.l4Bytes (ethWrap cfg f (ipv6Hdr src dst nh L.length hlim ++ L)) = L ∧
    Spec.sub (ethWrap cfg f (ipv6Hdr src dst nh L.length hlim ++ L)) 22 16 = src := by
  have hE := ethHdr_length cfg f hm (by omega)
  have hE2 := ethHdr_be16 cfg f hm hl
  have hH := ipv6Hdr_length src dst nh L.length hlim hs hd
  rw [ethWrap_eq]
  refine ⟨?_, ?_, ?_, ?_, ?_, ?_⟩
  · simp [hE, hH]; omega
  · rw [be16_append_left (by omega), hE2, he]
  · rw [u8_append_right (by omega), hE, u8_append_left (by omega)]; exact ipv6Hdr_u8_0 ..
  · rw [u8_append_right (by omega), hE, u8_append_left (by omega)]; exact ipv6Hdr_u8_6 ..
  · apply l4Bytes_reply_v6 _ _ _ hE (by rw [hE2, he]) hH
    rw [ipv6Hdr_be16_4]; omega
  · have : Spec.sub (ethHdr cfg f ++ (ipv6Hdr src dst nh L.length hlim ++ L)) 22 16 =
        Spec.sub (ipv6Hdr src dst nh L.length hlim) 8 16 := by
      simp only [Spec.sub]
      rw [List.drop_append, hE, List.drop_of_length_le (by omega), List.nil_append]
      simp only [show 22 - 14 = 8 by rfl]
      rw [List.drop_append, List.take_append]
      simp [hH]
    rw [this, ipv6Hdr_src _ _ _ _ _ hs]


/-- what `Spec.deliverable` says about the frame, for both IP versions -/
theorem deliverable_facts {cfg : Cfg} {f : Bytes} {v6 : Bool} {proto n : Nat}
    (hd : Spec.deliverable cfg f v6 proto n = true) :
    (if v6 then 54 else 34) ≤ f.length ∧ Spec.be16 f 12 = (if v6 then 0x86dd else 0x0800) ∧
    Spec.ipProto f = some proto ∧ n ≤ (Spec.l4Bytes f).length ∧
    Spec.srcIp f = some (if v6 then .v6 (Spec.sub f 22 16) else .v4 (Spec.sub f 26 4)) ∧
    Spec.dstIp f = some (if v6 then .v6 (Spec.sub f 38 16) else .v4 (Spec.sub f 30 4)) := by
  cases v6 with
  | false =>
    obtain ⟨h1, -, h3, -, -, h6, h7⟩ := deliverable4_elim hd
    refine ⟨h1, h3, ?_, h7, ?_, ?_⟩ <;> simp [Spec.ipProto, Spec.srcIp, Spec.dstIp, h3, h1, h6]
  | true =>
    obtain ⟨h1, -, h3, -, -, h6, h7⟩ := deliverable6_elim hd
    have h34 : 34 ≤ f.length := by omega
    refine ⟨h1, h3, ?_, h7, ?_, ?_⟩ <;> simp [Spec.ipProto, Spec.srcIp, Spec.dstIp, h3, h1, h6]

/-! ### UDP, generic in the application reply -/

/-- the client information `udp::repl` hands to `proto::repl` for the frame `f` -/
def ciUdp (v6 : Bool) (f : Bytes) : ClientInfo :=
  { macSrc := some (Spec.sub f 6 6), macDst := some (Spec.sub f 0 6),
    ipSrc := some (if v6 then .v6 (Spec.sub f 22 16) else .v4 (Spec.sub f 26 4)),
    ipDst := some (if v6 then .v6 (Spec.sub f 38 16) else .v4 (Spec.sub f 30 4)),
    transport := some 17,
    portSrc := some (Spec.be16 (Spec.l4Bytes f) 0), portDst := some (Spec.be16 (Spec.l4Bytes f) 2) }

/-- the UDP datagram built around the application reply `a` -/
def udpPkt (ci' : ClientInfo) (a : Bytes) : Bytes :=
  u16be (ci'.portDst.getD 0) ++ u16be (ci'.portSrc.getD 0) ++ u16be ((8 + a.length) % 65536) ++ [0, 0] ++ a

theorem udpRepl_some (cfg : Cfg) (env : Env) (ci : ClientInfo) (pl : Bytes) (hl : 8 ≤ pl.length)
    (ci' : ClientInfo) (t' : Option Tcb) (a : Bytes)
    (h : protoRepl cfg env { ci with portSrc := some (Spec.be16 pl 0), portDst := some (Spec.be16 pl 2) } none
      (pl.drop 8) = .ok (ci', t', some a)) :
    ∃ evs, udpRepl cfg env ci pl = .ok (evs, ci', some (udpPkt ci' a)) := by
  unfold udpRepl
  rw [rdBE_slice2 _ _ (by omega), rdBE_slice2 _ _ (by omega)]
  simp only [h]
  exact ⟨_, rfl⟩

theorem setU16_udpPkt (ci' : ClientInfo) (a : Bytes) (v : Nat) :
    setU16 (udpPkt ci' a) 6 v =
      u16be (ci'.portDst.getD 0) ++ u16be (ci'.portSrc.getD 0) ++ u16be ((8 + a.length) % 65536) ++ u16be v ++ a := by
  simp [setU16, udpPkt, u16be]

theorem udpPkt_length (ci' : ClientInfo) (a : Bytes) : (udpPkt ci' a).length = 8 + a.length := by
  simp [udpPkt, u16be]; omega

/-- what a receiver reads in the checksummed datagram -/
theorem udp_read (ci' : ClientInfo) (a : Bytes) (v : Nat) :
    (setU16 (udpPkt ci' a) 6 v).drop 8 = a ∧ (setU16 (udpPkt ci' a) 6 v).length = 8 + a.length ∧
    Spec.be16 (setU16 (udpPkt ci' a) 6 v) 0 = ci'.portDst.getD 0 % 65536 ∧
    Spec.be16 (setU16 (udpPkt ci' a) 6 v) 2 = ci'.portSrc.getD 0 % 65536 := by
  rw [setU16_udpPkt]
  refine ⟨by simp [u16be], by simp [u16be]; omega, ?_, ?_⟩
  · simp only [List.append_assoc]; exact be16_u16be _ _
  · simp [u16be, Spec.be16, Spec.u8, byte_toNat']; omega

theorem udp_frame_v4 {cfg : Cfg} {env : Env} {st : Table} {f : Bytes} (hm : cfg.mac.length = 6)
    (hd : Spec.deliverable cfg f false 17 8 = true)
    {ci' : ClientInfo} {t' : Option Tcb} {a : Bytes}
    (ha : protoRepl cfg env (ciUdp false f) none ((Spec.l4Bytes f).drop 8) = .ok (ci', t', some a))
    (hlen : a.length ≤ 65507) :
    ∃ r, (step cfg env st f).out = .ok (some r) ∧ (Spec.l4Bytes r).drop 8 = a ∧
      (Spec.l4Bytes r).length = 8 + a.length ∧
      Spec.be16 (Spec.l4Bytes r) 0 = ci'.portDst.getD 0 % 65536 ∧
      Spec.be16 (Spec.l4Bytes r) 2 = ci'.portSrc.getD 0 % 65536 := by
  obtain ⟨hl34, -, he, -, -, -, h8⟩ := deliverable4_elim hd
  have h8' : ¬ (Spec.l4Bytes f).length < 8 := by omega
  obtain ⟨evs, hu⟩ := udpRepl_some cfg env
    { ({ ci0 f with ipSrc := some (.v4 (Spec.sub f 26 4)), ipDst := some (.v4 (Spec.sub f 30 4)) } : ClientInfo)
        with transport := some 17 } (Spec.l4Bytes f) h8 ci' t' a ha
  have hs : (Spec.sub f 26 4).length = 4 := by simp [Spec.sub]; omega
  have hdl : (Spec.sub f 30 4).length = 4 := by simp [Spec.sub]; omega
  generalize hc : csumPseudo (Spec.sub f 30 4) (Spec.sub f 26 4) 17 (udpPkt ci' a) = c
  obtain ⟨r1, r2, r3, r4⟩ := udp_read ci' a c
  have hL : 20 + (setU16 (udpPkt ci' a) 6 c).length ≤ 65535 := by rw [r2]; omega
  obtain ⟨-, -, -, -, hl4⟩ := reply_v4_frame cfg f (Spec.sub f 30 4) (Spec.sub f 26 4)
    (setU16 (udpPkt ci' a) 6 c) 17 hm (by omega) he hdl hs hL
  refine ⟨ethWrap cfg f (ipv4Hdr (Spec.sub f 30 4) (Spec.sub f 26 4) 17 (20 + (setU16 (udpPkt ci' a) 6 c).length) ++
      setU16 (udpPkt ci' a) 6 c), ?_, ?_⟩
  · rw [step_out_v4 hd, ipv4Repl_deliverable env st _ hd]
    simp only [ipv4Deliver, show ¬ (17 = 1) by decide, show ¬ (17 = 6) by decide, if_false, if_true, h8', hu,
      hc, udpPkt_length]
    rw [if_neg (by omega), if_neg (by rw [r2]; omega)]
    rfl
  · rw [hl4]; exact ⟨r1, r2, r3, r4⟩

theorem udp_frame_v6 {cfg : Cfg} {env : Env} {st : Table} {f : Bytes} (hm : cfg.mac.length = 6)
    (hd : Spec.deliverable cfg f true 17 8 = true)
    {ci' : ClientInfo} {t' : Option Tcb} {a : Bytes}
    (ha : protoRepl cfg env (ciUdp true f) none ((Spec.l4Bytes f).drop 8) = .ok (ci', t', some a))
    (hlen : a.length ≤ 65527) :
    ∃ r, (step cfg env st f).out = .ok (some r) ∧ (Spec.l4Bytes r).drop 8 = a ∧
      (Spec.l4Bytes r).length = 8 + a.length ∧
      Spec.be16 (Spec.l4Bytes r) 0 = ci'.portDst.getD 0 % 65536 ∧
      Spec.be16 (Spec.l4Bytes r) 2 = ci'.portSrc.getD 0 % 65536 := by
  obtain ⟨hl54, -, he, -, -, -, h8⟩ := deliverable6_elim hd
  have h8' : ¬ (Spec.l4Bytes f).length < 8 := by omega
  obtain ⟨evs, hu⟩ := udpRepl_some cfg env
    { ({ ci0 f with ipSrc := some (.v6 (Spec.sub f 22 16)), ipDst := some (.v6 (Spec.sub f 38 16)) } : ClientInfo)
        with transport := some 17 } (Spec.l4Bytes f) h8 ci' t' a ha
  have hs : (Spec.sub f 22 16).length = 16 := by simp [Spec.sub]; omega
  have hdl : (Spec.sub f 38 16).length = 16 := by simp [Spec.sub]; omega
  generalize hc : (if csumPseudo (Spec.sub f 38 16) (Spec.sub f 22 16) 17 (udpPkt ci' a) = 0 then 65535
    else csumPseudo (Spec.sub f 38 16) (Spec.sub f 22 16) 17 (udpPkt ci' a)) = c
  obtain ⟨r1, r2, r3, r4⟩ := udp_read ci' a c
  have hL : (setU16 (udpPkt ci' a) 6 c).length ≤ 65535 := by rw [r2]; omega
  obtain ⟨-, -, -, -, hl4, -⟩ := reply_v6_frame cfg f (Spec.sub f 38 16) (Spec.sub f 22 16)
    (setU16 (udpPkt ci' a) 6 c) 17 64 hm (by omega) he hdl hs hL
  refine ⟨ethWrap cfg f (ipv6Hdr (Spec.sub f 38 16) (Spec.sub f 22 16) 17 (setU16 (udpPkt ci' a) 6 c).length 64 ++
      setU16 (udpPkt ci' a) 6 c), ?_, ?_⟩
  · rw [step_out_v6 hd, ipv6Repl_deliverable env st _ hd]
    simp only [ipv6Deliver, show ¬ (17 = 58) by decide, show ¬ (17 = 6) by decide, if_false, if_true, h8', hu, hc]
    rw [if_neg (by rw [r2]; omega)]
    rfl
  · rw [hl4]; exact ⟨r1, r2, r3, r4⟩

end Masscanned.E2E.Fr
