/-
  Proofs/E2E/Bridge — Spec-level facts linking `Spec.l4Bytes` (the L3 payload as a receiver delimits
  it) with `Spec.l4Off` (where `Spec.mirrors` reads the ports), and the dependence of `Spec.mirrors`
  on its port offset.
-/
import Masscanned.Spec.L4
namespace Masscanned.E2E.Br
open Masscanned Masscanned.Spec

theorem u8_window (p : Bytes) (s n i : Nat) (h : s + i < n) :
    u8 ((p.take n).drop s) i = u8 p (s + i) := by
  simp [u8, List.getD_eq_getElem?_getD, List.getElem?_drop, h]

theorem u8_drop (b : Bytes) (k i : Nat) : u8 (b.drop k) i = u8 b (k + i) := by
  simp [u8, List.getD_eq_getElem?_getD, List.getElem?_drop]

theorem be16_drop (b : Bytes) (k i : Nat) : be16 (b.drop k) i = be16 b (k + i) := by
  simp [be16, u8_drop, Nat.add_assoc]

theorem be16_window (p : Bytes) (s n i : Nat) (h : s + i + 1 < n) :
    be16 ((p.take n).drop s) i = be16 p (s + i) := by
  simp only [be16, u8_window p s n i (by omega), u8_window p s n (i + 1) (by omega), Nat.add_assoc]

theorem window_length (p : Bytes) (s n : Nat) : ((p.take n).drop s).length = min n p.length - s := by
  simp

/-- a 16-bit field of the L3 payload, read at its absolute offset in the frame -/
theorem be16_l4Bytes (x : Bytes) (i : Nat) (h : i + 2 ≤ (l4Bytes x).length) :
    be16 (l4Bytes x) i = be16 x (l4Off x + i) := by
  unfold l4Bytes l4Off at *
  by_cases he : be16 x 12 = 0x0800
  · simp only [he, if_true] at h ⊢
    rw [window_length] at h
    rw [be16_window _ _ _ _ (by omega), be16_drop, u8_drop]
    congr 1
    simp only [Nat.add_zero]; omega
  · simp only [he, if_false] at h ⊢
    rw [window_length] at h
    rw [be16_window _ _ _ _ (by omega), be16_drop]
    congr 1; omega

theorem be16_lt' (b : Bytes) (i : Nat) : be16 b i < 65536 := by
  have h1 := (b.getD i 0).toNat_lt
  have h2 := (b.getD (i + 1) 0).toNat_lt
  simp only [be16, u8]; omega

theorem l4Bytes_length_le (x : Bytes) : (l4Bytes x).length ≤ 65535 := by
  have h1 := be16_lt' (x.drop 14) 2
  have h2 := be16_lt' (x.drop 14) 4
  unfold l4Bytes
  split
  · rw [window_length]; omega
  · rw [window_length]; omega

/-- `mirrors` depends on the offset only through the expected source port -/
theorem mirrors_congr (cfg : Cfg) (f r : Bytes) (k k' : Nat)
    (h : (be16 f (l4Off f + 2) + k) % 65536 = (be16 f (l4Off f + 2) + k') % 65536) :
    mirrors cfg f r k = mirrors cfg f r k' := by
  unfold mirrors
  simp only [h]

theorem mirrors_port (cfg : Cfg) (f r : Bytes) (k : Nat) (h : mirrors cfg f r k = true)
    (he : be16 f 12 ≠ 0x0806) (ht : isTcpUdp f = true) :
    be16 r (l4Off r) = (be16 f (l4Off f + 2) + k) % 65536 := by
  unfold mirrors at h
  simp only [he, if_false, ht, if_true, Bool.and_eq_true, decide_eq_true_eq] at h
  exact h.2.2.2

end Masscanned.E2E.Br
