/-
  Proofs/E2E/Ident — tools to discharge the identification hypothesis of the C10 dispatch theorems
  from the shape of a request:
  * `conflictX`: two patterns that carry different literals at some position exclude each other;
  * `refStreamL_eq_some`: a signature that matches, while every other non-end-anchored signature that
    is not longer does not match, is the first one completed (generic in the signature list, so it
    serves both for the published set `Spec.sigs` — through `sigsPub` — and for `Spec.sigsK2`);
  * `dispatch_datagram_K2` / `dispatch_stream_K2`: the dispatch theorems of Thm/C10 with the
    shadow-aware reference (which the matcher equals on ALL inputs) in place of the published one
    + `Spec.shadowed`.
-/
import Masscanned.Proofs.C10.Proto
namespace Masscanned.E2E
open Masscanned Masscanned.Spec Masscanned.C10

/-! ### patterns -/

theorem pmX_length (P : List SymX) (s : Bytes) (h : prefixMatchX P s = true) : P.length ≤ s.length := by
  induction P generalizing s with
  | nil => simp
  | cons p ps ih =>
    cases s with
    | nil => simp [prefixMatchX] at h
    | cons b t =>
      simp only [prefixMatchX, Bool.and_eq_true] at h
      have := ih t h.2
      simp only [List.length_cons]; omega

/-- the two patterns disagree at some position: literal vs different literal, or literal vs an
    "any byte except" set containing it -/
def conflictX : List SymX → List SymX → Bool
  | .lit a :: p, .lit b :: q => a != b || conflictX p q
  | .lit a :: p, .anyExcept l :: q => l.contains a || conflictX p q
  | .anyExcept l :: p, .lit a :: q => l.contains a || conflictX p q
  | _ :: p, _ :: q => conflictX p q
  | _, _ => false

theorem conflictX_excl (P Q : List SymX) (s : Bytes) (hc : conflictX P Q = true)
    (hp : prefixMatchX P s = true) : prefixMatchX Q s = false := by
  induction P generalizing Q s with
  | nil => cases Q <;> simp [conflictX] at hc
  | cons p ps ih =>
    cases Q with
    | nil => cases p <;> simp [conflictX] at hc
    | cons q qs =>
      cases s with
      | nil => rfl
      | cons b t =>
        simp only [prefixMatchX, Bool.and_eq_true] at hp
        obtain ⟨hp1, hp2⟩ := hp
        simp only [prefixMatchX, Bool.and_eq_false_iff]
        cases p <;> cases q <;> simp only [conflictX, Bool.or_eq_true, bne_iff_ne, ne_eq] at hc <;>
          simp only [symMatchX, decide_eq_true_eq, Bool.not_eq_true', decide_eq_false_iff_not] at hp1 ⊢ <;>
          (try (rcases hc with hc | hc)) <;>
          first
          | exact .inr (ih _ _ hc hp2)
          | (subst hp1; left; simpa using hc)
          | (subst hp1; left; intro h; exact hc h.symm)
          | (left; intro h; subst h; simp_all)

/-- an all-literal pattern matches iff the bytes are a prefix -/
theorem pmX_lits (l : Bytes) (s : Bytes) : prefixMatchX (l.map SymX.lit) s = l.isPrefixOf s := by
  induction l generalizing s with
  | nil => cases s <;> rfl
  | cons a t ih =>
    cases s with
    | nil => rfl
    | cons b u =>
      simp only [List.map_cons, prefixMatchX, symMatchX, List.isPrefixOf, ih]
      by_cases h : a = b <;> simp [h]

/-! ### first completed signature -/

theorem findSome_range {α : Type} (f : Nat → Option α) (v : α) :
    ∀ (n N : Nat), n ≤ N → f n = some v → (∀ m, m < n → f m = none) →
      (List.range (N + 1)).findSome? f = some v := by
  intro n
  induction n generalizing f with
  | zero =>
    intro N _ h0 _
    rw [List.range_succ_eq_map, List.findSome?_cons, h0]
  | succ n ih =>
    intro N hN hn hlt
    obtain ⟨N', rfl⟩ : ∃ N', N = N' + 1 := ⟨N - 1, by omega⟩
    rw [List.range_succ_eq_map, List.findSome?_cons, hlt 0 (by omega), List.findSome?_map]
    exact ih (f ∘ Nat.succ) N' (by omega) hn (fun m hm => hlt (m + 1) (by omega))

theorem findSome_range_none {α : Type} (f : Nat → Option α) (N : Nat) (h : ∀ m, f m = none) :
    (List.range N).findSome? f = none := by
  rw [List.findSome?_eq_none_iff]
  intro x _
  exact h x

theorem refStreamL_eq_some (L pre post : List SigX) (g : SigX) (s : Bytes)
    (hL : L = pre ++ g :: post) (hna : g.endAnchored = false) (hm : prefixMatchX g.pat s = true)
    (hex : ∀ g' ∈ pre ++ post, g'.endAnchored = false → g'.pat.length ≤ g.pat.length →
      prefixMatchX g'.pat s = false) :
    refStreamL L s = some g.id := by
  have hlen := pmX_length _ _ hm
  unfold refStreamL
  apply findSome_range _ _ g.pat.length s.length hlen
  · unfold completedAtL
    rw [hL, List.find?_append]
    have hpre : pre.find? (fun g' => !g'.endAnchored && decide (g'.pat.length = g.pat.length) &&
        decide (g.pat.length ≤ s.length) && prefixMatchX g'.pat s) = none := by
      rw [List.find?_eq_none]
      intro x hx
      cases hxa : x.endAnchored with
      | true => simp
      | false =>
        by_cases hxl : x.pat.length = g.pat.length
        · simp [hex x (List.mem_append_left _ hx) hxa (by omega)]
        · simp [hxl]
    rw [hpre]
    simp [hna, hm, hlen]
  · intro m hm'
    unfold completedAtL
    rw [Option.map_eq_none_iff, List.find?_eq_none]
    intro x hx
    rw [hL] at hx
    cases hxa : x.endAnchored with
    | true => simp
    | false =>
      by_cases hxl : x.pat.length = m
      · have hx' : x ∈ pre ++ post ∨ x = g := by
          simp only [List.mem_append, List.mem_cons] at hx ⊢
          rcases hx with h | h | h
          · exact .inl (.inl h)
          · exact .inr h
          · exact .inl (.inr h)
        rcases hx' with h | h
        · simp [hex x h hxa (by omega)]
        · subst h; omega
      · simp [hxl]

theorem refStreamL_eq_none (L : List SigX) (s : Bytes)
    (h : ∀ g ∈ L, g.endAnchored = false → prefixMatchX g.pat s = false) : refStreamL L s = none := by
  unfold refStreamL
  apply findSome_range_none
  intro m
  unfold completedAtL
  rw [Option.map_eq_none_iff, List.find?_eq_none]
  intro x hx
  cases hxa : x.endAnchored with
  | true => simp
  | false => simp [h x hx hxa]

/-- signature number `k` of `L` is not end-anchored and clashes with every other non-end-anchored
    signature that is not longer: whenever it matches, it is the first one completed -/
def firstX (L : List SigX) (k : Nat) : Bool :=
  match L[k]? with
  | none => false
  | some g => !g.endAnchored &&
    (L.take k ++ L.drop (k + 1)).all fun g' =>
      g'.endAnchored || decide (g.pat.length < g'.pat.length) || conflictX g.pat g'.pat

theorem refStreamL_of_firstX (L : List SigX) (k : Nat) (g : SigX) (s : Bytes) (hk : L[k]? = some g)
    (hf : firstX L k = true) (hm : prefixMatchX g.pat s = true) : refStreamL L s = some g.id := by
  unfold firstX at hf
  rw [hk] at hf
  simp only [Bool.and_eq_true, Bool.not_eq_true', List.all_eq_true, Bool.or_eq_true, decide_eq_true_eq] at hf
  obtain ⟨hna, hall⟩ := hf
  have hklt : k < L.length := by
    rcases Nat.lt_or_ge k L.length with h | h
    · exact h
    · rw [List.getElem?_eq_none h] at hk; cases hk
  have hL : L = L.take k ++ g :: L.drop (k + 1) := by
    have : L[k] = g := by
      rw [List.getElem?_eq_getElem hklt] at hk; exact Option.some.inj hk
    rw [← this, List.getElem_cons_drop, List.take_append_drop]
  apply refStreamL_eq_some L _ _ g s hL hna hm
  intro g' hg' ha hl
  rcases hall g' hg' with (h | h) | h
  · rw [ha] at h; cases h
  · omega
  · exact conflictX_excl _ _ _ h hm

/-! ### the published set as a `SigX` list -/

def sigsPub : List SigX :=
  sigs.map fun g => { id := g.id, pat := g.pat.map SymX.ofSym, endAnchored := g.endAnchored }

theorem completedAt_eq_pub (s : Bytes) (n : Nat) : completedAt s n = completedAtL sigsPub s n := by
  unfold completedAt completedAtL sigsPub
  rw [List.find?_map, Option.map_map]
  have : ((fun g : SigX => !g.endAnchored && decide (g.pat.length = n) && decide (n ≤ s.length) &&
          prefixMatchX g.pat s) ∘
        fun g : Sig => ({ id := g.id, pat := g.pat.map SymX.ofSym, endAnchored := g.endAnchored } : SigX)) =
      (fun g : Sig => !g.endAnchored && decide (g.pat.length = n) && decide (n ≤ s.length) &&
          prefixMatch g.pat s) := by
    funext g
    simp only [Function.comp, List.length_map, prefixMatchX_ofSym]
  rw [this]
  rfl

theorem refStream_eq_pub (s : Bytes) : refStream s = refStreamL sigsPub s := by
  unfold refStream refStreamL
  congr 1
  funext n
  exact completedAt_eq_pub s n

theorem refEnd_eq_pub (s : Bytes) :
    refEnd s = (sigsPub.find? (fun g => g.endAnchored && decide (g.pat.length = s.length) &&
      prefixMatchX g.pat s)).map (·.id) := by
  unfold refEnd sigsPub
  rw [List.find?_map, Option.map_map]
  have : ((fun g : SigX => g.endAnchored && decide (g.pat.length = s.length) && prefixMatchX g.pat s) ∘
        fun g : Sig => ({ id := g.id, pat := g.pat.map SymX.ofSym, endAnchored := g.endAnchored } : SigX)) =
      (fun g : Sig => g.endAnchored && decide (g.pat.length = s.length) && prefixMatch g.pat s) := by
    funext g
    simp only [Function.comp, List.length_map, prefixMatchX_ofSym]
  rw [this]
  rfl

/-! ### dispatch with the shadow-aware reference (no hypothesis on `Spec.shadowed`) -/

theorem dispatch_datagram_K2 (cfg : Cfg) (env : Env) (ci : ClientInfo) (s : Bytes) (i : Nat)
    (hg : ¬(ci.transport = some 6 ∧ ci.cookie = none)) (h1 : refDatagramK2 s = some i) :
    protoRepl cfg env ci none s = protoHandle cfg env i ci none s := by
  have hid := proto_datagram s
  have hk := refDatagramK2_id s i h1
  rw [h1] at hid
  rw [protoRepl_factors, if_neg hg]
  simp only [identify, hid, idOf, hk.2.2, and_false, if_false]

theorem dispatch_stream_K2 (cfg : Cfg) (env : Env) (ci : ClientInfo) (t : Tcb) (s : Bytes) (i : Nat)
    (hg : ¬(ci.transport = some 6 ∧ ci.cookie = none))
    (ht : t.protoId = PROTO_NONE) (hs : t.smackState = baseState) (h1 : refStreamK2 s = some i) :
    ∃ st, protoRepl cfg env ci (some t) s =
      protoHandle cfg env i ci (some { t with protoId := i, smackState := st }) s := by
  obtain ⟨st, n, hsn, _, _⟩ := proto_stream s
  rw [h1] at hsn
  refine ⟨st, ?_⟩
  rw [protoRepl_factors, if_neg hg]
  simp only [identify, ht, if_true, hs, hsn, idOf, reduceCtorEq, false_and, if_false]

theorem refDatagramK2_of_stream (s : Bytes) (i : Nat) (h : refStreamK2 s = some i) :
    refDatagramK2 s = some i := by
  unfold refDatagramK2; rw [h]

theorem refDatagram_of_stream (s : Bytes) (i : Nat) (h : refStream s = some i) :
    refDatagram s = some i := by
  unfold refDatagram; rw [h]

/-- datagram with no identification: the two searches of `proto::repl` both report "no match" -/
theorem datagram_noMatch (s : Bytes) (h : refDatagramK2 s = none) :
    ∃ st n st', protoTbl.searchNext baseState s = .ok (noMatch, st, n) ∧
      protoTbl.searchNextEnd st = .ok (noMatch, st') := by
  have hid := proto_datagram s
  rw [h] at hid
  unfold datagramIdent at hid
  cases hsn : protoTbl.searchNext baseState s with
  | error e => rw [hsn] at hid; cases hid
  | ok r =>
    obtain ⟨id, st, n⟩ := r
    rw [hsn] at hid
    simp only at hid
    by_cases hn : id = noMatch
    · subst hn
      simp only [if_true] at hid
      cases hse : protoTbl.searchNextEnd st with
      | error e => rw [hse] at hid; cases hid
      | ok r2 =>
        obtain ⟨id', st'⟩ := r2
        rw [hse] at hid
        simp only [Except.ok.injEq, idOf] at hid
        exact ⟨st, n, st', rfl, by rw [hse, hid]⟩
    · simp only [hn, if_false, Except.ok.injEq, idOf] at hid

end Masscanned.E2E
