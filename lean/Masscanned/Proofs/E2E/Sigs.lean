/-
  Proofs/E2E/Sigs — for each protocol: the bytes a valid request necessarily carries complete that
  protocol's signature, and it is the FIRST signature completed — both in the published set
  (`Spec.refStream`, through `sigsPub`) and in the shadow-aware set the matcher implements
  (`Spec.refStreamK2`).  Pattern matching is turned into positional byte facts by `pmX_eq`.
-/
import Masscanned.Proofs.E2E.Ident
import Masscanned.Spec.Http
import Masscanned.Spec.Stun
import Masscanned.Spec.Rpc
import Masscanned.Spec.Smb
import Masscanned.Spec.Ssh
namespace Masscanned.E2E
open Masscanned Masscanned.Spec Masscanned.C10

/-! ### positional form of `prefixMatchX` -/

def pmFrom : List SymX → Bytes → Nat → Bool
  | [], _, _ => true
  | p :: ps, s, i => symMatchX p (s.getD i 0) && pmFrom ps s (i + 1)

theorem pmX_drop (P : List SymX) (s : Bytes) (i : Nat) (hi : i ≤ s.length) :
    prefixMatchX P (s.drop i) = (decide (i + P.length ≤ s.length) && pmFrom P s i) := by
  induction P generalizing i with
  | nil =>
    simp only [List.length_nil, Nat.add_zero, pmFrom, Bool.and_true]
    cases hd : s.drop i <;> simp [prefixMatchX, hi]
  | cons p ps ih =>
    by_cases h : i < s.length
    · have hd : s.drop i = s[i] :: s.drop (i + 1) := by
        rw [List.drop_eq_getElem_cons h]
      have hg : s.getD i 0 = s[i] := by simp [List.getD_eq_getElem?_getD, h]
      rw [hd]
      simp only [prefixMatchX, ih (i + 1) (by omega), pmFrom, hg, List.length_cons]
      by_cases h2 : i + 1 + ps.length ≤ s.length
      · have : i + (ps.length + 1) ≤ s.length := by omega
        simp [h2, this]
      · have : ¬ i + (ps.length + 1) ≤ s.length := by omega
        simp [h2, this]
    · have : s.drop i = [] := List.drop_eq_nil_of_le (by omega)
      rw [this]
      have h2 : ¬ i + (ps.length + 1) ≤ s.length := by omega
      simp [prefixMatchX, h2]

theorem pmX_eq (P : List SymX) (s : Bytes) :
    prefixMatchX P s = (decide (P.length ≤ s.length) && pmFrom P s 0) := by
  have := pmX_drop P s 0 (by omega)
  simpa using this

theorem u8_lt (b : Bytes) (i : Nat) : Spec.u8 b i < 256 := (b.getD i 0).toNat_lt

theorem sym_lit' (c b : UInt8) : symMatchX (.lit c) b = decide (b.toNat = c.toNat) := by
  simp only [symMatchX]
  by_cases h : c = b
  · simp [h]
  · have : ¬ b.toNat = c.toNat := fun e => h (UInt8.toNat_inj.mp e).symm
    simp [h, this]

theorem sym_lit (c : UInt8) (s : Bytes) (i : Nat) :
    symMatchX (.lit c) (s.getD i 0) = decide (Spec.u8 s i = c.toNat) := sym_lit' c _

theorem getD_irrel (s : Bytes) (i : Nat) (a b : UInt8) (h : i < s.length) : s.getD i a = s.getD i b := by
  simp [List.getD_eq_getElem?_getD, h]

/-! ### the two signature tables -/

theorem firstX_K2 : ∀ k, k < 19 → k ≠ 10 → k ≠ 11 → firstX sigsK2 k = true := by decide +kernel

theorem firstX_pub : ∀ k, k < 19 → k ≠ 10 → k ≠ 11 → k ≠ 15 → firstX sigsPub k = true := by decide +kernel

def litSig (id : Nat) (l : Bytes) : SigX := { id := id, pat := l.map SymX.lit, endAnchored := false }

theorem sig_http : ∀ k, k < 9 →
    sigsK2[k]? = some (litSig ID_HTTP (httpMethods.getD k [] ++ [32, 47])) ∧
    sigsPub[k]? = some (litSig ID_HTTP (httpMethods.getD k [] ++ [32, 47])) := by decide +kernel

theorem sig_ssh :
    sigsK2[12]? = some (litSig ID_SSH "SSH-2.0".toUTF8.toList) ∧
    sigsPub[12]? = some (litSig ID_SSH "SSH-2.0".toUTF8.toList) ∧
    sigsK2[13]? = some (litSig ID_SSH "SSH-1.99".toUTF8.toList) ∧
    sigsPub[13]? = some (litSig ID_SSH "SSH-1.99".toUTF8.toList) ∧
    sigsK2[14]? = some (litSig ID_GHOST "Gh0st".toUTF8.toList) ∧
    sigsPub[14]? = some (litSig ID_GHOST "Gh0st".toUTF8.toList) := by decide +kernel

/-- a payload starting with the literal bytes of signature `k` (an all-literal one) is identified -/
theorem lit_ident (k id : Nat) (l p : Bytes) (hk : k < 19) (h10 : k ≠ 10) (h11 : k ≠ 11) (h15 : k ≠ 15)
    (h2 : sigsK2[k]? = some (litSig id l)) (hp : sigsPub[k]? = some (litSig id l))
    (hpre : l.isPrefixOf p = true) :
    refStreamK2 p = some id ∧ refStream p = some id := by
  have hm : prefixMatchX (litSig id l).pat p = true := by
    simp only [litSig, pmX_lits, hpre]
  constructor
  · rw [refStreamK2_eq]
    exact refStreamL_of_firstX sigsK2 k _ p h2 (firstX_K2 k hk h10 h11) hm
  · rw [refStream_eq_pub]
    exact refStreamL_of_firstX sigsPub k _ p hp (firstX_pub k hk h10 h11 h15) hm

/-! ### HTTP -/

theorem http_ident (p m r : Bytes) (hm : m ∈ httpMethods) (hp : p = m ++ 32 :: r) (h47 : r.head? = some 47) :
    refStreamK2 p = some ID_HTTP ∧ refStream p = some ID_HTTP := by
  obtain ⟨k, hk, rfl⟩ := List.getElem_of_mem hm
  have hk9 : k < 9 := hk
  obtain ⟨r', rfl⟩ : ∃ r', r = 47 :: r' := by
    cases r with
    | nil => simp at h47
    | cons b t => simp only [List.head?_cons, Option.some.injEq] at h47; exact ⟨t, by rw [h47]⟩
  have hg : httpMethods.getD k [] = httpMethods[k] := by
    rw [List.getD_eq_getElem?_getD, List.getElem?_eq_getElem hk]; rfl
  obtain ⟨h2, hpub⟩ := sig_http k hk9
  rw [hg] at h2 hpub
  refine lit_ident k ID_HTTP _ p (by omega) (by omega) (by omega) (by omega) h2 hpub ?_
  rw [List.isPrefixOf_iff_prefix, hp]
  exact ⟨r', by rw [List.append_assoc]; rfl⟩

/-! ### SSH, Gh0st -/

theorem ssh_ident (p : Bytes)
    (h : ("SSH-2.0".toUTF8.toList.isPrefixOf p || "SSH-1.99".toUTF8.toList.isPrefixOf p) = true) :
    refStreamK2 p = some ID_SSH ∧ refStream p = some ID_SSH := by
  obtain ⟨a1, a2, a3, a4, _, _⟩ := sig_ssh
  rw [Bool.or_eq_true] at h
  rcases h with h | h
  · exact lit_ident 12 ID_SSH _ p (by omega) (by omega) (by omega) (by omega) a1 a2 h
  · exact lit_ident 13 ID_SSH _ p (by omega) (by omega) (by omega) (by omega) a3 a4 h

theorem ghost_ident (p : Bytes) (h : "Gh0st".toUTF8.toList.isPrefixOf p = true) :
    refStreamK2 p = some ID_GHOST ∧ refStream p = some ID_GHOST := by
  obtain ⟨_, _, _, _, a5, a6⟩ := sig_ssh
  exact lit_ident 14 ID_GHOST _ p (by omega) (by omega) (by omega) (by omega) a5 a6 h

/-! ### byte readers -/

theorem u8_drop' (b : Bytes) (k i : Nat) : Spec.u8 (b.drop k) i = Spec.u8 b (k + i) := by
  simp [Spec.u8, List.getD_eq_getElem?_getD, List.getElem?_drop]

theorem sub4_u8 (m : Bytes) (i : Nat) (a b c d : UInt8) (h : Spec.sub m i 4 = [a, b, c, d]) :
    Spec.u8 m i = a.toNat ∧ Spec.u8 m (i + 1) = b.toNat ∧ Spec.u8 m (i + 2) = c.toNat ∧
      Spec.u8 m (i + 3) = d.toNat := by
  have key : ∀ j, j < 4 → m[i + j]? = [a, b, c, d][j]? := by
    intro j hj
    rw [← h]
    simp [Spec.sub, hj, List.getElem?_drop]
  have k0 := key 0 (by omega); have k1 := key 1 (by omega)
  have k2 := key 2 (by omega); have k3 := key 3 (by omega)
  simp only [Nat.add_zero, List.getElem?_cons_zero, List.getElem?_cons_succ] at k0 k1 k2 k3
  simp [Spec.u8, List.getD_eq_getElem?_getD, k0, k1, k2, k3]

/-! ### SMB -/

def patSmb (b : UInt8) : List SymX := [.lit 0, .lit 0, .any, .any, .lit b, .lit 83, .lit 77, .lit 66]

theorem sig_smb :
    sigsK2[17]? = some { id := ID_SMB1, pat := patSmb 255, endAnchored := false } ∧
    sigsPub[17]? = some { id := ID_SMB1, pat := patSmb 255, endAnchored := false } ∧
    sigsK2[18]? = some { id := ID_SMB2, pat := patSmb 254, endAnchored := false } ∧
    sigsPub[18]? = some { id := ID_SMB2, pat := patSmb 254, endAnchored := false } := by decide +kernel

theorem patSmb_match (b : UInt8) (p : Bytes) (hl : 8 ≤ p.length) (h0 : Spec.u8 p 0 = 0) (h1 : Spec.u8 p 1 = 0)
    (h4 : Spec.u8 p 4 = b.toNat) (h5 : Spec.u8 p 5 = 83) (h6 : Spec.u8 p 6 = 77) (h7 : Spec.u8 p 7 = 66) :
    prefixMatchX (patSmb b) p = true := by
  rw [pmX_eq]
  simp only [patSmb, pmFrom, sym_lit]
  simp [symMatchX, hl, h0, h1, h4, h5, h6, h7]

/-- a NetBIOS session message (type byte 0, second byte 0) carrying `ff|fe 'S' 'M' 'B'` -/
theorem smb_ident (p m : Bytes) (b : UInt8) (hn : Spec.nbtBody p = some m) (h1 : Spec.u8 p 1 = 0)
    (hl : 4 ≤ m.length) (hmagic : Spec.sub m 0 4 = [b, 0x53, 0x4d, 0x42]) :
    prefixMatchX (patSmb b) p = true := by
  have hp : 4 ≤ p.length ∧ Spec.u8 p 0 = 0 ∧ m = p.drop 4 := by
    unfold Spec.nbtBody at hn
    split at hn
    · cases hn
    · rename_i hc
      dsimp only at hn
      split at hn
      · cases hn
        exact ⟨by omega, by omega, rfl⟩
      · cases hn
  obtain ⟨hp4, hp0, rfl⟩ := hp
  obtain ⟨a0, a1, a2, a3⟩ := sub4_u8 _ 0 _ _ _ _ hmagic
  simp only [u8_drop', Nat.add_zero, Nat.zero_add] at a0 a1 a2 a3
  have hlen : 8 ≤ p.length := by simp at hl; omega
  exact patSmb_match b p hlen hp0 h1 a0 a1 a2 a3

theorem smb1_ident (p m : Bytes) (req : Spec.Smb1Req) (hn : Spec.nbtBody p = some m) (h1 : Spec.u8 p 1 = 0)
    (hr : Spec.smb1Request m = some req) :
    refStreamK2 p = some ID_SMB1 ∧ refStream p = some ID_SMB1 := by
  have hm : 32 ≤ m.length ∧ Spec.sub m 0 4 = [0xff, 0x53, 0x4d, 0x42] := by
    unfold Spec.smb1Request at hr
    split at hr
    · cases hr
    · rename_i hc
      exact ⟨by omega, Classical.not_not.mp (fun h => hc (.inr h))⟩
  have hpm := smb_ident p m 255 hn h1 (by omega) hm.2
  obtain ⟨a1, a2, _, _⟩ := sig_smb
  constructor
  · rw [refStreamK2_eq]
    exact refStreamL_of_firstX sigsK2 17 _ p a1 (firstX_K2 17 (by omega) (by omega) (by omega)) hpm
  · rw [refStream_eq_pub]
    exact refStreamL_of_firstX sigsPub 17 _ p a2 (firstX_pub 17 (by omega) (by omega) (by omega) (by omega)) hpm

theorem smb2_ident (p m : Bytes) (req : Spec.Smb2Req) (hn : Spec.nbtBody p = some m) (h1 : Spec.u8 p 1 = 0)
    (hr : Spec.smb2Request m = some req) :
    refStreamK2 p = some ID_SMB2 ∧ refStream p = some ID_SMB2 := by
  have hm : 64 ≤ m.length ∧ Spec.sub m 0 4 = [0xfe, 0x53, 0x4d, 0x42] := by
    unfold Spec.smb2Request at hr
    split at hr
    · cases hr
    · rename_i hc
      exact ⟨by omega, Classical.not_not.mp (fun h => hc (.inr h))⟩
  have hpm := smb_ident p m 254 hn h1 (by omega) hm.2
  obtain ⟨_, _, a1, a2⟩ := sig_smb
  constructor
  · rw [refStreamK2_eq]
    exact refStreamL_of_firstX sigsK2 18 _ p a1 (firstX_K2 18 (by omega) (by omega) (by omega)) hpm
  · rw [refStream_eq_pub]
    exact refStreamL_of_firstX sigsPub 18 _ p a2 (firstX_pub 18 (by omega) (by omega) (by omega) (by omega)) hpm

/-! ### ONC-RPC -/

/-- the ONC-RPC call signature, parametrised by its first symbol (published: any byte; compiled
    matcher: any byte except the nine shadowed ones / except 0) -/
def patRpc (first : SymX) : List SymX :=
  [first, .any, .any, .any, .lit 0, .lit 0, .lit 0, .lit 0, .lit 0, .lit 0, .lit 0, .any,
   .lit 0, .lit 1, .lit 134, .any, .any, .any, .any, .any, .lit 0, .lit 0, .lit 0, .any]

def patRpcTcpK2 : List SymX := [.anyExcept nineBytes, .any, .any, .any] ++ patRpc (.anyExcept [0])
def patRpcTcpPub : List SymX := [.any, .any, .any, .any] ++ patRpc .any

theorem sig_rpc :
    sigsK2[16]? = some { id := ID_RPC_UDP, pat := patRpc (.anyExcept nineBytes), endAnchored := false } ∧
    sigsPub[16]? = some { id := ID_RPC_UDP, pat := patRpc .any, endAnchored := false } ∧
    sigsK2[15]? = some { id := ID_RPC_TCP, pat := patRpcTcpK2, endAnchored := false } ∧
    sigsPub[15]? = some { id := ID_RPC_TCP, pat := patRpcTcpPub, endAnchored := false } := by
  decide +kernel

theorem patRpc_match (first : SymX) (q : Bytes) (hl : 24 ≤ q.length) (h4 : Spec.be32 q 4 = 0)
    (h8 : Spec.be32 q 8 < 256) (h12 : Spec.inPortmapRange (Spec.be32 q 12) = true)
    (h20 : Spec.be32 q 20 < 256) (hf : symMatchX first (q.getD 0 0) = true) :
    prefixMatchX (patRpc first) q = true := by
  have b4 := u8_lt q 4; have b5 := u8_lt q 5; have b6 := u8_lt q 6; have b7 := u8_lt q 7
  have b8 := u8_lt q 8; have b9 := u8_lt q 9; have b10 := u8_lt q 10; have b11 := u8_lt q 11
  have b12 := u8_lt q 12; have b13 := u8_lt q 13; have b14 := u8_lt q 14; have b15 := u8_lt q 15
  have b20 := u8_lt q 20; have b21 := u8_lt q 21; have b22 := u8_lt q 22; have b23 := u8_lt q 23
  simp only [Spec.inPortmapRange, Bool.and_eq_true, decide_eq_true_eq] at h12
  simp only [Spec.be32, Spec.be16, Nat.reduceAdd] at h4 h8 h12 h20
  have e4 : Spec.u8 q 4 = 0 := by omega
  have e5 : Spec.u8 q 5 = 0 := by omega
  have e6 : Spec.u8 q 6 = 0 := by omega
  have e7 : Spec.u8 q 7 = 0 := by omega
  have e8 : Spec.u8 q 8 = 0 := by omega
  have e9 : Spec.u8 q 9 = 0 := by omega
  have e10 : Spec.u8 q 10 = 0 := by omega
  have e12 : Spec.u8 q 12 = 0 := by omega
  have e13 : Spec.u8 q 13 = 1 := by omega
  have e14 : Spec.u8 q 14 = 134 := by omega
  have e20 : Spec.u8 q 20 = 0 := by omega
  have e21 : Spec.u8 q 21 = 0 := by omega
  have e22 : Spec.u8 q 22 = 0 := by omega
  rw [pmX_eq]
  simp only [patRpc, pmFrom, sym_lit, hf]
  simp [symMatchX, hl, e4, e5, e6, e7, e8, e9, e10, e12, e13, e14, e20, e21, e22]

theorem parseCall_inv (p : Bytes) (c : Spec.RpcCall) (h : Spec.parseCall p = some c) :
    40 ≤ p.length ∧ Spec.be32 p 4 = 0 ∧ c.rpcvers = Spec.be32 p 8 ∧ c.prog = Spec.be32 p 12 ∧
      c.proc = Spec.be32 p 20 := by
  unfold Spec.parseCall at h
  split at h
  · cases h
  · split at h
    · cases h
    · rename_i h40 h4
      dsimp only at h
      split at h
      · cases h
      · split at h
        · cases h
        · cases h
          exact ⟨by omega, Classical.not_not.mp h4, rfl, rfl, rfl⟩

theorem symExcept (l : List UInt8) (p : Bytes) (i : Nat) (hi : i < p.length)
    (h : l.contains (p.getD i 1) = false) : symMatchX (.anyExcept l) (p.getD i 0) = true := by
  rw [getD_irrel p i 0 1 hi]
  simp only [symMatchX, h, Bool.not_false]

/-- a complete ONC-RPC call (datagram) with the signature's field ranges, first byte not shadowed -/
theorem rpc_udp_ident (p : Bytes) (c : Spec.RpcCall) (hc : Spec.parseCall p = some c)
    (hv : c.rpcvers < 256) (hprog : Spec.inPortmapRange c.prog = true) (hproc : c.proc < 256) :
    refStream p = some ID_RPC_UDP ∧
      (nineBytes.contains (p.getD 0 1) = false → refStreamK2 p = some ID_RPC_UDP) := by
  obtain ⟨h40, h4, e8, e12, e20⟩ := parseCall_inv p c hc
  rw [e8] at hv; rw [e12] at hprog; rw [e20] at hproc
  obtain ⟨a1, a2, _, _⟩ := sig_rpc
  constructor
  · rw [refStream_eq_pub]
    exact refStreamL_of_firstX sigsPub 16 _ p a2 (firstX_pub 16 (by omega) (by omega) (by omega) (by omega))
      (patRpc_match .any p (by omega) h4 hv hprog hproc rfl)
  · intro h0
    rw [refStreamK2_eq]
    exact refStreamL_of_firstX sigsK2 16 _ p a1 (firstX_K2 16 (by omega) (by omega) (by omega))
      (patRpc_match _ p (by omega) h4 hv hprog hproc (symExcept _ p 0 (by omega) h0))

theorem pmX_cons4 (a b c d : SymX) (P : List SymX) (p : Bytes) (hl : 4 ≤ p.length) :
    prefixMatchX ([a, b, c, d] ++ P) p =
      (symMatchX a (p.getD 0 0) && symMatchX b (p.getD 1 0) && symMatchX c (p.getD 2 0) &&
        symMatchX d (p.getD 3 0) && prefixMatchX P (p.drop 4)) := by
  match p, hl with
  | x0 :: x1 :: x2 :: x3 :: q, _ =>
    simp [prefixMatchX, Bool.and_assoc]

/-- a complete ONC-RPC call behind a 4-byte record mark: identified by the compiled matcher iff the
    first byte of the record mark is not one of the nine shadowed values and the first byte of the
    xid is not 0 -/
theorem rpc_tcp_ident (p : Bytes) (c : Spec.RpcCall) (hl : 4 ≤ p.length)
    (hc : Spec.parseCall (p.drop 4) = some c)
    (hv : c.rpcvers < 256) (hprog : Spec.inPortmapRange c.prog = true) (hproc : c.proc < 256)
    (h0 : nineBytes.contains (p.getD 0 1) = false) (hx : p.getD 4 1 ≠ 0) :
    refStreamK2 p = some ID_RPC_TCP ∧ prefixMatchX patRpcTcpPub p = true := by
  obtain ⟨h40, h4, e8, e12, e20⟩ := parseCall_inv _ c hc
  rw [e8] at hv; rw [e12] at hprog; rw [e20] at hproc
  have hlen : 44 ≤ p.length := by simp at h40; omega
  obtain ⟨_, _, a1, _⟩ := sig_rpc
  have hq0 : (p.drop 4).getD 0 0 = p.getD 4 0 := by
    simp [List.getD_eq_getElem?_getD, List.getElem?_drop]
  constructor
  · rw [refStreamK2_eq]
    refine refStreamL_of_firstX sigsK2 15 _ p a1 (firstX_K2 15 (by omega) (by omega) (by omega)) ?_
    show prefixMatchX patRpcTcpK2 p = true
    unfold patRpcTcpK2
    rw [pmX_cons4 _ _ _ _ _ p hl, symExcept _ p 0 (by omega) h0]
    simp only [symMatchX, Bool.true_and]
    refine patRpc_match _ _ (by omega) h4 hv hprog hproc ?_
    rw [hq0]
    apply symExcept _ p 4 (by omega)
    simpa using hx
  · unfold patRpcTcpPub
    rw [pmX_cons4 _ _ _ _ _ p hl]
    simp only [symMatchX, Bool.true_and]
    exact patRpc_match _ _ (by omega) h4 hv hprog hproc rfl

/-! ### STUN -/

def patStunK2 : List SymX := [.lit 0, .lit 1, .anyExcept [0], .any, .lit 33, .lit 18, .lit 164, .lit 66]
def patStunPub : List SymX := [.lit 0, .lit 1, .any, .any, .lit 33, .lit 18, .lit 164, .lit 66]
def patStunA : List SymX := [.lit 0, .lit 1, .lit 0, .lit 0] ++ List.replicate 16 .any
def patStunB : List SymX :=
  [.lit 0, .lit 1, .lit 0, .lit 8] ++ List.replicate 16 .any ++
  [.lit 0, .lit 3, .lit 0, .lit 4, .lit 0, .lit 0, .lit 0, .any]

theorem sig_stun :
    sigsK2[9]? = some { id := ID_STUN, pat := patStunK2, endAnchored := false } ∧
    sigsPub[9]? = some { id := ID_STUN, pat := patStunPub, endAnchored := false } ∧
    sigsK2[10]? = some { id := ID_STUN, pat := patStunA, endAnchored := true } ∧
    sigsK2[11]? = some { id := ID_STUN, pat := patStunB, endAnchored := true } ∧
    sigsPub[10]? = some { id := ID_STUN, pat := patStunA, endAnchored := true } ∧
    sigsPub[11]? = some { id := ID_STUN, pat := patStunB, endAnchored := true } := by decide +kernel

/-- the RFC 5389 magic cookie at bytes 4..7 -/
def hasCookie (p : Bytes) : Bool := Spec.sub p 4 4 = [0x21, 0x12, 0xa4, 0x42]

theorem stun_cookie_ident (p : Bytes) (hl : 8 ≤ p.length) (h0 : Spec.u8 p 0 = 0) (h1 : Spec.u8 p 1 = 1)
    (hck : hasCookie p = true) :
    refStream p = some ID_STUN ∧ (Spec.u8 p 2 ≠ 0 → refStreamK2 p = some ID_STUN) := by
  simp only [hasCookie, decide_eq_true_eq] at hck
  obtain ⟨c4, c5, c6, c7⟩ := sub4_u8 p 4 _ _ _ _ hck
  obtain ⟨a1, a2, _⟩ := sig_stun
  constructor
  · rw [refStream_eq_pub]
    refine refStreamL_of_firstX sigsPub 9 _ p a2 (firstX_pub 9 (by omega) (by omega) (by omega) (by omega)) ?_
    show prefixMatchX patStunPub p = true
    rw [pmX_eq]
    simp only [patStunPub, pmFrom, sym_lit]
    simp [symMatchX, hl, h0, h1, c4, c5, c6, c7]
  · intro h2
    rw [refStreamK2_eq]
    refine refStreamL_of_firstX sigsK2 9 _ p a1 (firstX_K2 9 (by omega) (by omega) (by omega)) ?_
    show prefixMatchX patStunK2 p = true
    have h2' : (p.getD 2 0) ≠ 0 := by
      intro e; apply h2; unfold Spec.u8; rw [e]; rfl
    rw [pmX_eq]
    simp only [patStunK2, pmFrom, sym_lit]
    simp [symMatchX, hl, h0, h1, c4, c5, c6, c7]
    simpa [List.getD_eq_getElem?_getD] using h2'

/-- end-of-datagram identification: the first signature whose end condition holds -/
theorem refEndL_eq_some (L pre post : List SigX) (g : SigX) (s : Bytes) (hL : L = pre ++ g :: post)
    (hpre : ∀ x ∈ pre, (x.endAnchored = false ∧ x.pat.length ≠ s.length + 1) ∨
      (x.endAnchored = true ∧ x.pat.length ≠ s.length))
    (hg : g.endAnchored = true) (hlen : g.pat.length = s.length) (hm : prefixMatchX g.pat s = true) :
    refEndL L s = some g.id := by
  unfold refEndL
  rw [hL, List.find?_append]
  have : pre.find? (fun g => (g.endAnchored && decide (g.pat.length = s.length) && prefixMatchX g.pat s) ||
      oneShortOf g s) = none := by
    rw [List.find?_eq_none]
    intro x hx
    rcases hpre x hx with ⟨ha, hl⟩ | ⟨ha, hl⟩
    · simp [oneShortOf, ha, hl]
    · simp [oneShortOf, ha, hl]
  rw [this]
  simp [hg, hlen, hm]

theorem stun_noStream_K2 : sigsK2.all (fun g => g.endAnchored || conflictX [.lit 0, .lit 1, .lit 0] g.pat) = true := by
  decide +kernel

theorem stun_pre10 : (sigsK2.take 10).all (fun x => !x.endAnchored && x.pat.length != 21) = true ∧
    (sigsK2.take 11).all (fun x => if x.endAnchored then x.pat.length != 28 else x.pat.length != 29) = true := by
  decide +kernel

theorem stun_noStream (p : Bytes) (hl : 3 ≤ p.length) (h0 : Spec.u8 p 0 = 0) (h1 : Spec.u8 p 1 = 1)
    (h2 : Spec.u8 p 2 = 0) : refStreamK2 p = none := by
  have hm : prefixMatchX [.lit 0, .lit 1, .lit 0] p = true := by
    rw [pmX_eq]
    simp only [pmFrom, sym_lit]
    simp [hl, h0, h1, h2]
  rw [refStreamK2_eq]
  apply refStreamL_eq_none
  intro g hg ha
  have := List.all_eq_true.mp stun_noStream_K2 g hg
  rw [ha] at this
  exact conflictX_excl _ _ _ (by simpa using this) hm

/-- the compiled matcher identifies every 20-byte datagram starting `00 01 00 00` as STUN (with or
    without magic cookie) -/
theorem stunA_ident (p : Bytes) (hl : p.length = 20) (h0 : Spec.u8 p 0 = 0) (h1 : Spec.u8 p 1 = 1)
    (h2 : Spec.u8 p 2 = 0) (h3 : Spec.u8 p 3 = 0) : refDatagramK2 p = some ID_STUN := by
  unfold refDatagramK2
  rw [stun_noStream p (by omega) h0 h1 h2, refEndK2_eq]
  obtain ⟨_, _, a10, _⟩ := sig_stun
  have hL : sigsK2 = sigsK2.take 10 ++ { id := ID_STUN, pat := patStunA, endAnchored := true } :: sigsK2.drop 11 := by
    decide +kernel
  refine refEndL_eq_some sigsK2 _ _ _ p hL ?_ rfl (by rw [hl]; rfl) ?_
  · intro x hx
    have := List.all_eq_true.mp stun_pre10.1 x hx
    simp only [Bool.and_eq_true, Bool.not_eq_true', bne_iff_ne, ne_eq] at this
    exact .inl ⟨this.1, by rw [hl]; exact this.2⟩
  · show prefixMatchX patStunA p = true
    rw [pmX_eq]
    simp only [patStunA, List.replicate, List.cons_append, List.nil_append, pmFrom, sym_lit]
    simp [symMatchX, hl, h0, h1, h2, h3]

/-- … and every 28-byte datagram `00 01 00 08 <16 bytes> 00 03 00 04 00 00 00 xx` (one CHANGE-REQUEST) -/
theorem stunB_ident (p : Bytes) (hl : p.length = 28) (h0 : Spec.u8 p 0 = 0) (h1 : Spec.u8 p 1 = 1)
    (h2 : Spec.u8 p 2 = 0) (h3 : Spec.u8 p 3 = 8)
    (h20 : Spec.u8 p 20 = 0) (h21 : Spec.u8 p 21 = 3) (h22 : Spec.u8 p 22 = 0) (h23 : Spec.u8 p 23 = 4)
    (h24 : Spec.u8 p 24 = 0) (h25 : Spec.u8 p 25 = 0) (h26 : Spec.u8 p 26 = 0) :
    refDatagramK2 p = some ID_STUN := by
  unfold refDatagramK2
  rw [stun_noStream p (by omega) h0 h1 h2, refEndK2_eq]
  have hL : sigsK2 = sigsK2.take 11 ++ { id := ID_STUN, pat := patStunB, endAnchored := true } :: sigsK2.drop 12 := by
    decide +kernel
  refine refEndL_eq_some sigsK2 _ _ _ p hL ?_ rfl (by rw [hl]; rfl) ?_
  · intro x hx
    have := List.all_eq_true.mp stun_pre10.2 x hx
    cases ha : x.endAnchored with
    | true => rw [ha] at this; simp only [if_true, bne_iff_ne, ne_eq] at this; exact .inr ⟨rfl, by rw [hl]; exact this⟩
    | false =>
      rw [ha] at this; simp only [Bool.false_eq_true, if_false, bne_iff_ne, ne_eq] at this
      exact .inl ⟨rfl, by rw [hl]; exact this⟩
  · show prefixMatchX patStunB p = true
    rw [pmX_eq]
    simp only [patStunB, List.replicate, List.cons_append, List.nil_append, pmFrom, sym_lit]
    simp [symMatchX, hl, h0, h1, h2, h3, h20, h21, h22, h23, h24, h25, h26]

end Masscanned.E2E
