/-
  Proofs/E2E/FrameTcp — frame level (`step`) for the FIRST data segment of a TCP flow: a deliverable
  TCP frame with PSH|ACK whose flow is not in the table and whose acknowledgement number is
  cookie + 1, and whose payload the application layer answers with `a`, yields one reply frame
  carrying a PSH|ACK segment with seq = the peer's ack, ack = seq + payload length, payload `a`;
  the flow is appended to the table.  Generic in the application reply.
-/
import Masscanned.Proofs.E2E.Frame
import Masscanned.Proofs.Tcp
namespace Masscanned.E2E.Fr
open Masscanned Masscanned.C12

/-- the SYN cookie of the flow of the TCP frame `f` -/
def ckOf (cfg : Cfg) (v6 : Bool) (f : Bytes) : Nat :=
  cookie cfg.k0 cfg.k1
    (if v6 then .v6 (Spec.sub f 22 16) else .v4 (Spec.sub f 26 4))
    (if v6 then .v6 (Spec.sub f 38 16) else .v4 (Spec.sub f 30 4))
    (Spec.be16 (Spec.l4Bytes f) 0) (Spec.be16 (Spec.l4Bytes f) 2)

/-- the client information `tcp::repl` hands to `proto::repl` for a data segment -/
def ciTcp (cfg : Cfg) (v6 : Bool) (f : Bytes) : ClientInfo :=
  { macSrc := some (Spec.sub f 6 6), macDst := some (Spec.sub f 0 6),
    ipSrc := some (if v6 then .v6 (Spec.sub f 22 16) else .v4 (Spec.sub f 26 4)),
    ipDst := some (if v6 then .v6 (Spec.sub f 38 16) else .v4 (Spec.sub f 30 4)),
    transport := some 6,
    portSrc := some (Spec.be16 (Spec.l4Bytes f) 0), portDst := some (Spec.be16 (Spec.l4Bytes f) 2),
    cookie := some (ckOf cfg v6 f) }

/-- the reply segment (checksum field still zero) -/
def tcpSeg (ci' : ClientInfo) (t a : Bytes) : Bytes :=
  tcpHdr (ci'.portDst.getD 0) (ci'.portSrc.getD 0) (rdBE (slice t 8 4))
    ((rdBE (slice t 4 4) + (tcpPayload t).length) % 4294967296) 0x18 ++ a

/-- what a receiver reads in the checksummed segment -/
theorem tcp_read (ci' : ClientInfo) (t a : Bytes) (ht : 20 ≤ t.length) (v : Nat) :
    (setU16 (tcpSeg ci' t a) 16 v).drop 20 = a ∧ (setU16 (tcpSeg ci' t a) 16 v).length = 20 + a.length ∧
    Spec.tcpFlagsOf (setU16 (tcpSeg ci' t a) 16 v) = 24 ∧
    Spec.be32 (setU16 (tcpSeg ci' t a) 16 v) 4 = Spec.be32 t 8 ∧
    Spec.be32 (setU16 (tcpSeg ci' t a) 16 v) 8 = (Spec.be32 t 4 + Spec.tcpDataLen t) % 4294967296 ∧
    Spec.be16 (setU16 (tcpSeg ci' t a) 16 v) 0 = ci'.portDst.getD 0 % 65536 ∧
    Spec.be16 (setU16 (tcpSeg ci' t a) 16 v) 2 = ci'.portSrc.getD 0 % 65536 ∧
    Spec.u8 (setU16 (tcpSeg ci' t a) 16 v) 12 / 16 = 5 := by
  have e4 : rdBE (slice t 4 4) = Spec.be32 t 4 := rdBE_slice4 t 4 (by omega)
  have e8 : rdBE (slice t 8 4) = Spec.be32 t 8 := rdBE_slice4 t 8 (by omega)
  have l4 := be32_lt t 4
  have l8 := be32_lt t 8
  rw [tcpSeg, e4, e8, tcpPayload_length]
  generalize Spec.be32 t 4 = sq at *
  generalize Spec.be32 t 8 = ak at *
  generalize Spec.tcpDataLen t = n
  refine ⟨?_, ?_, ?_, ?_, ?_, ?_, ?_, ?_⟩
  · simp [setU16, tcpHdr, u16be, u32be]
  · simp [setU16, tcpHdr, u16be, u32be]; omega
  · simp [setU16, tcpHdr, u16be, u32be, Spec.tcpFlagsOf, Spec.u8, byte_toNat]
  · simp [setU16, tcpHdr, u16be, u32be, Spec.be32, Spec.be16, Spec.u8, byte_toNat]; omega
  · simp [setU16, tcpHdr, u16be, u32be, Spec.be32, Spec.be16, Spec.u8, byte_toNat]; omega
  · simp [setU16, tcpHdr, u16be, u32be, Spec.be16, Spec.u8, byte_toNat]; omega
  · simp [setU16, tcpHdr, u16be, u32be, Spec.be16, Spec.u8, byte_toNat]; omega
  · simp [setU16, tcpHdr, u16be, u32be, Spec.u8, byte_toNat]

/-! ### the table component of `step` -/

def l3St (r : Except Site (List Ev × ClientInfo × Table × Option Bytes)) (st : Table) : Table :=
  match r with
  | .error _ => st
  | .ok (_, _, st', _) => st'

theorem step_st_v4 {cfg : Cfg} {env : Env} {st : Table} {f : Bytes} {proto minLen : Nat}
    (h : Spec.deliverable cfg f false proto minLen = true) :
    (step cfg env st f).st = l3St (ipv4Repl cfg env st (ci0 f) (f.drop 14)) st := by
  obtain ⟨hl, ha, he, -⟩ := deliverable4_elim h
  have hety : rdBE (slice f 12 2) = 0x0800 := by rw [C12.rdBE_slice2 _ _ (by omega)]; exact he
  have h14 : ¬ f.length < 14 := by omega
  have hpl : ¬ (f.drop 14).length < 20 := by simp; omega
  rw [← slice_eq_sub, ← authMacs_contains] at ha
  simp only [step, h14, if_false, ethRepl, ha, Bool.not_true, Bool.false_eq_true, hety, hpl]
  simp only [show ¬ (2048 = 2054) by decide, if_false, if_true, ci0, l3St]
  generalize ipv4Repl cfg env st _ _ = R
  rcases R with e | ⟨evs, ci', st', _ | r⟩ <;> simp

theorem step_st_v6 {cfg : Cfg} {env : Env} {st : Table} {f : Bytes} {proto minLen : Nat}
    (h : Spec.deliverable cfg f true proto minLen = true) :
    (step cfg env st f).st = l3St (ipv6Repl cfg env st (ci0 f) (f.drop 14)) st := by
  obtain ⟨hl, ha, he, -⟩ := deliverable6_elim h
  have hety : rdBE (slice f 12 2) = 0x86dd := by rw [C12.rdBE_slice2 _ _ (by omega)]; exact he
  have h14 : ¬ f.length < 14 := by omega
  have hpl : ¬ (f.drop 14).length < 40 := by simp; omega
  rw [← slice_eq_sub, ← authMacs_contains] at ha
  simp only [step, h14, if_false, ethRepl, ha, Bool.not_true, Bool.false_eq_true, hety, hpl]
  simp only [show ¬ (34525 = 2054) by decide, show ¬ (34525 = 2048) by decide, if_false, if_true, ci0, l3St]
  generalize ipv6Repl cfg env st _ _ = R
  rcases R with e | ⟨evs, ci', st', _ | r⟩ <;> simp

/-! ### TCP layer: first data segment of a flow -/

theorem tcpRepl_first (cfg : Cfg) (env : Env) (st : Table) (ci : ClientInfo) (t : Bytes)
    (hfl : tcpFlags t / 8 % 2 = 1 ∧ tcpFlags t / 16 % 2 = 1)
    (hnew : st.get? (tcpCk cfg ci t) = none) (hack : tcpCk cfg ci t = tcpAckno t)
    (ci' : ClientInfo) (tcb' : Option Tcb) (a : Bytes)
    (ha : protoRepl cfg env (tcpCi2 cfg ci t) (some {}) (tcpPayload t) = .ok (ci', tcb', some a)) :
    ∃ evs, tcpRepl cfg env st ci t =
      .ok (evs, ci', st ++ [(tcpCk cfg ci t, tcb'.getD {})], some (tcpSeg ci' t a)) := by
  rw [tcpRepl_data cfg env st ci t hfl]
  simp only [hnew]
  rw [if_neg (fun h => h hack)]
  simp only [ha]
  exact ⟨_, rfl⟩

/-- result of the frame-level lemmas below -/
structure TcpFirstOut (cfg : Cfg) (env : Env) (st : Table) (f : Bytes) (v6 : Bool) (ci' : ClientInfo)
    (tcb' : Option Tcb) (a r : Bytes) : Prop where
  out : (step cfg env st f).out = .ok (some r)
  table : (step cfg env st f).st = st ++ [(ckOf cfg v6 f, tcb'.getD {})]
  payload : (Spec.l4Bytes r).drop 20 = a
  len : (Spec.l4Bytes r).length = 20 + a.length
  flags : Spec.tcpFlagsOf (Spec.l4Bytes r) = 24
  seq : Spec.be32 (Spec.l4Bytes r) 4 = Spec.be32 (Spec.l4Bytes f) 8
  ack : Spec.be32 (Spec.l4Bytes r) 8 =
    (Spec.be32 (Spec.l4Bytes f) 4 + Spec.tcpDataLen (Spec.l4Bytes f)) % 4294967296
  sport : Spec.be16 (Spec.l4Bytes r) 0 = ci'.portDst.getD 0 % 65536
  dport : Spec.be16 (Spec.l4Bytes r) 2 = ci'.portSrc.getD 0 % 65536
  doff : Spec.u8 (Spec.l4Bytes r) 12 / 16 = 5

theorem tcp_first_v4 {cfg : Cfg} {env : Env} {st : Table} {f : Bytes} (hm : cfg.mac.length = 6)
    (hd : Spec.deliverable cfg f false 6 20 = true)
    (hfl : Spec.tcpFlagsOf (Spec.l4Bytes f) / 8 % 2 = 1 ∧ Spec.tcpFlagsOf (Spec.l4Bytes f) / 16 % 2 = 1)
    (hnew : st.get? (ckOf cfg false f) = none)
    (hack : Spec.be32 (Spec.l4Bytes f) 8 = (ckOf cfg false f + 1) % 4294967296)
    {ci' : ClientInfo} {tcb' : Option Tcb} {a : Bytes}
    (ha : protoRepl cfg env (ciTcp cfg false f) (some {}) (tcpPayload (Spec.l4Bytes f)) = .ok (ci', tcb', some a))
    (hlen : a.length ≤ 65495) :
    ∃ r, TcpFirstOut cfg env st f false ci' tcb' a r := by
  obtain ⟨hl34, -, he, -, -, -, h20⟩ := deliverable4_elim hd
  have h20' : ¬ (Spec.l4Bytes f).length < 20 := by omega
  let ci : ClientInfo :=
    { ({ ci0 f with ipSrc := some (.v4 (Spec.sub f 26 4)), ipDst := some (.v4 (Spec.sub f 30 4)) } : ClientInfo)
        with transport := some 6 }
  have hck : tcpCk cfg ci (Spec.l4Bytes f) = ckOf cfg false f :=
    tcpCk_eq (cfg := cfg) (ci := ci) h20 rfl rfl
  have hci2 : tcpCi2 cfg ci (Spec.l4Bytes f) = ciTcp cfg false f := by
    simp only [tcpCi2, tcpCi, hck, Masscanned.rdBE_slice2 (Spec.l4Bytes f) 0 (by omega),
      Masscanned.rdBE_slice2 (Spec.l4Bytes f) 2 (by omega)]
    rfl
  obtain ⟨evs, ht⟩ := tcpRepl_first cfg env st ci (Spec.l4Bytes f) hfl (by rw [hck]; exact hnew)
    ((ackno_iff h20 (tcpCk_lt ..)).mpr (by rw [hck]; exact hack)) ci' tcb' a (by rw [hci2]; exact ha)
  rw [hck] at ht
  simp only [ci] at ht
  have hs : (Spec.sub f 26 4).length = 4 := by simp [Spec.sub]; omega
  have hdl : (Spec.sub f 30 4).length = 4 := by simp [Spec.sub]; omega
  generalize hc : csumPseudo (Spec.sub f 30 4) (Spec.sub f 26 4) 6 (tcpSeg ci' (Spec.l4Bytes f) a) = c
  obtain ⟨r1, r2, r3, r4, r5, r6, r7, r8⟩ := tcp_read ci' (Spec.l4Bytes f) a h20 c
  have hL : 20 + (setU16 (tcpSeg ci' (Spec.l4Bytes f) a) 16 c).length ≤ 65535 := by rw [r2]; omega
  obtain ⟨-, -, -, -, hl4⟩ := reply_v4_frame cfg f (Spec.sub f 30 4) (Spec.sub f 26 4)
    (setU16 (tcpSeg ci' (Spec.l4Bytes f) a) 16 c) 6 hm (by omega) he hdl hs hL
  have hrepl : ipv4Repl cfg env st (ci0 f) (f.drop 14) = .ok
      ([ev .ipv4 .recv { ci0 f with ipSrc := some (.v4 (Spec.sub f 26 4)), ipDst := some (.v4 (Spec.sub f 30 4)) }]
        ++ evs ++ [ev .ipv4 .send ci'], ci', st ++ [(ckOf cfg false f, tcb'.getD {})],
       some (ipv4Hdr (Spec.sub f 30 4) (Spec.sub f 26 4) 6
          (20 + (setU16 (tcpSeg ci' (Spec.l4Bytes f) a) 16 c).length) ++ setU16 (tcpSeg ci' (Spec.l4Bytes f) a) 16 c)) := by
    rw [ipv4Repl_deliverable env st _ hd]
    simp only [ipv4Deliver, show ¬ (6 = 1) by decide, if_false, if_true, h20', ht, hc]
    rw [if_neg (by rw [r2]; omega)]
  refine ⟨ethWrap cfg f (ipv4Hdr (Spec.sub f 30 4) (Spec.sub f 26 4) 6
      (20 + (setU16 (tcpSeg ci' (Spec.l4Bytes f) a) 16 c).length) ++ setU16 (tcpSeg ci' (Spec.l4Bytes f) a) 16 c), ?_⟩
  constructor
  · rw [step_out_v4 hd, hrepl]; rfl
  · rw [step_st_v4 hd, hrepl]; rfl
  all_goals rw [hl4]
  · exact r1
  · exact r2
  · exact r3
  · exact r4
  · exact r5
  · exact r6
  · exact r7
  · exact r8

theorem tcp_first_v6 {cfg : Cfg} {env : Env} {st : Table} {f : Bytes} (hm : cfg.mac.length = 6)
    (hd : Spec.deliverable cfg f true 6 20 = true)
    (hfl : Spec.tcpFlagsOf (Spec.l4Bytes f) / 8 % 2 = 1 ∧ Spec.tcpFlagsOf (Spec.l4Bytes f) / 16 % 2 = 1)
    (hnew : st.get? (ckOf cfg true f) = none)
    (hack : Spec.be32 (Spec.l4Bytes f) 8 = (ckOf cfg true f + 1) % 4294967296)
    {ci' : ClientInfo} {tcb' : Option Tcb} {a : Bytes}
    (ha : protoRepl cfg env (ciTcp cfg true f) (some {}) (tcpPayload (Spec.l4Bytes f)) = .ok (ci', tcb', some a))
    (hlen : a.length ≤ 65515) :
    ∃ r, TcpFirstOut cfg env st f true ci' tcb' a r := by
  obtain ⟨hl54, -, he, -, -, -, h20⟩ := deliverable6_elim hd
  have h20' : ¬ (Spec.l4Bytes f).length < 20 := by omega
  let ci : ClientInfo :=
    { ({ ci0 f with ipSrc := some (.v6 (Spec.sub f 22 16)), ipDst := some (.v6 (Spec.sub f 38 16)) } : ClientInfo)
        with transport := some 6 }
  have hck : tcpCk cfg ci (Spec.l4Bytes f) = ckOf cfg true f :=
    tcpCk_eq (cfg := cfg) (ci := ci) h20 rfl rfl
  have hci2 : tcpCi2 cfg ci (Spec.l4Bytes f) = ciTcp cfg true f := by
    simp only [tcpCi2, tcpCi, hck, Masscanned.rdBE_slice2 (Spec.l4Bytes f) 0 (by omega),
      Masscanned.rdBE_slice2 (Spec.l4Bytes f) 2 (by omega)]
    rfl
  obtain ⟨evs, ht⟩ := tcpRepl_first cfg env st ci (Spec.l4Bytes f) hfl (by rw [hck]; exact hnew)
    ((ackno_iff h20 (tcpCk_lt ..)).mpr (by rw [hck]; exact hack)) ci' tcb' a (by rw [hci2]; exact ha)
  rw [hck] at ht
  simp only [ci] at ht
  have hs : (Spec.sub f 22 16).length = 16 := by simp [Spec.sub]; omega
  have hdl : (Spec.sub f 38 16).length = 16 := by simp [Spec.sub]; omega
  generalize hc : csumPseudo (Spec.sub f 38 16) (Spec.sub f 22 16) 6 (tcpSeg ci' (Spec.l4Bytes f) a) = c
  obtain ⟨r1, r2, r3, r4, r5, r6, r7, r8⟩ := tcp_read ci' (Spec.l4Bytes f) a h20 c
  have hL : (setU16 (tcpSeg ci' (Spec.l4Bytes f) a) 16 c).length ≤ 65535 := by rw [r2]; omega
  obtain ⟨-, -, -, -, hl4, -⟩ := reply_v6_frame cfg f (Spec.sub f 38 16) (Spec.sub f 22 16)
    (setU16 (tcpSeg ci' (Spec.l4Bytes f) a) 16 c) 6 64 hm (by omega) he hdl hs hL
  have hrepl : ipv6Repl cfg env st (ci0 f) (f.drop 14) = .ok
      ([ev .ipv6 .recv { ci0 f with ipSrc := some (.v6 (Spec.sub f 22 16)), ipDst := some (.v6 (Spec.sub f 38 16)) }]
        ++ evs ++ [ev .ipv6 .send ci'], ci', st ++ [(ckOf cfg true f, tcb'.getD {})],
       some (ipv6Hdr (Spec.sub f 38 16) (Spec.sub f 22 16) 6
          (setU16 (tcpSeg ci' (Spec.l4Bytes f) a) 16 c).length 64 ++ setU16 (tcpSeg ci' (Spec.l4Bytes f) a) 16 c)) := by
    rw [ipv6Repl_deliverable env st _ hd]
    simp only [ipv6Deliver, show ¬ (6 = 58) by decide, if_false, if_true, h20', ht, hc]
    rw [if_neg (by rw [r2]; omega)]
  refine ⟨ethWrap cfg f (ipv6Hdr (Spec.sub f 38 16) (Spec.sub f 22 16) 6
      (setU16 (tcpSeg ci' (Spec.l4Bytes f) a) 16 c).length 64 ++ setU16 (tcpSeg ci' (Spec.l4Bytes f) a) 16 c), ?_⟩
  constructor
  · rw [step_out_v6 hd, hrepl]; rfl
  · rw [step_st_v6 hd, hrepl]; rfl
  all_goals rw [hl4]
  · exact r1
  · exact r2
  · exact r3
  · exact r4
  · exact r5
  · exact r6
  · exact r7
  · exact r8

end Masscanned.E2E.Fr
