/-
  Proofs/E2E/Shadow — when is a request outside `Spec.shadowed` / `Spec.rpcOneShort` (the side
  conditions of the published-reference dispatch theorems of Thm/C10), in terms of its bytes.
-/
import Masscanned.Proofs.E2E.Sigs
namespace Masscanned.E2E
open Masscanned Masscanned.Spec Masscanned.C10

theorem sub_u8 (m : Bytes) (i n : Nat) (l : Bytes) (h : Spec.sub m i n = l) :
    ∀ j, j < l.length → Spec.u8 m (i + j) = (l.getD j 0).toNat := by
  intro j hj
  have hn : j < n := by
    rw [← h] at hj; simp [Spec.sub] at hj; omega
  have key : m[i + j]? = l[j]? := by
    rw [← h]
    simp [Spec.sub, hn, List.getElem?_drop]
  simp [Spec.u8, List.getD_eq_getElem?_getD, key]

/-! ### the one-byte-short quirk needs a first byte outside the nine shadowed values -/

theorem oneShort_check : sigsK2.all (fun g =>
    g.endAnchored || (g.pat.getLast? != some .any) || conflictX [.lit 0] g.pat.dropLast) = true := by
  decide +kernel

theorem not_oneShort_of_zero (p : Bytes) (hl : 1 ≤ p.length) (h0 : Spec.u8 p 0 = 0) :
    rpcOneShort p = false := by
  have hm : prefixMatchX [.lit 0] p = true := by
    rw [pmX_eq]; simp only [pmFrom, sym_lit]; simp [hl, h0]
  unfold rpcOneShort
  rw [List.any_eq_false]
  intro g hg
  have := List.all_eq_true.mp oneShort_check g hg
  simp only [Bool.or_eq_true, bne_iff_ne, ne_eq] at this
  unfold oneShortOf
  rcases this with (h | h) | h
  · simp [h]
  · simp [h]
  · simp [conflictX_excl _ _ _ h hm]

/-! ### `Spec.shadowed`, clause by clause -/

theorem pm_pub (P : List Sym) (s : Bytes) : prefixMatch P s = prefixMatchX (P.map SymX.ofSym) s :=
  (prefixMatchX_ofSym P s).symm

theorem pubPats :
    patStunMagic.map SymX.ofSym = patStunPub ∧ (anyN 4 ++ rpcCall).map SymX.ofSym = patRpcTcpPub ∧
    rpcCall.map SymX.ofSym = patRpc .any := by decide +kernel

theorem shadowed_eq (s : Bytes) :
    shadowed s =
      ((prefixMatchX patStunPub s && decide (s.getD 2 1 = 0)) ||
       (prefixMatchX patRpcTcpPub s && (nineBytes.contains (s.getD 0 1) || decide (s.getD 4 1 = 0))) ||
       (prefixMatchX (patRpc .any) s && nineBytes.contains (s.getD 0 1))) := by
  unfold shadowed
  rw [pm_pub, pm_pub, pm_pub, pubPats.1, pubPats.2.1, pubPats.2.2]

theorem rpc_conflicts :
    conflictX (patRpc .any) patStunPub = true ∧ conflictX (patRpc .any) patRpcTcpPub = true ∧
    conflictX patStunPub patRpcTcpPub = false := by decide +kernel

/-- for a datagram matching the ONC-RPC/UDP signature: shadowed iff its first byte is one of the nine -/
theorem rpc_udp_shadowed (p : Bytes) (hm : prefixMatchX (patRpc .any) p = true) :
    shadowed p = nineBytes.contains (p.getD 0 1) := by
  rw [shadowed_eq, conflictX_excl _ _ _ rpc_conflicts.1 hm, conflictX_excl _ _ _ rpc_conflicts.2.1 hm, hm]
  simp

/-- first byte outside the nine values and fifth byte non-zero: not shadowed -/
theorem not_shadowed_of_first (p : Bytes) (hl : 1 ≤ p.length)
    (h0 : nineBytes.contains (p.getD 0 1) = false) (hx : p.getD 4 1 ≠ 0) : shadowed p = false := by
  rw [shadowed_eq, h0]
  have h1 : prefixMatchX patStunPub p = false := by
    cases hm : prefixMatchX patStunPub p with
    | false => rfl
    | true =>
      exfalso
      rw [pmX_eq] at hm
      simp only [patStunPub, pmFrom, sym_lit, Bool.and_eq_true, decide_eq_true_eq] at hm
      have hz : Spec.u8 p 0 = 0 := hm.2.1
      have : p.getD 0 1 = 0 := by
        rw [← getD_irrel p 0 0 1 (by omega)]
        exact UInt8.toNat_inj.mp hz
      rw [this] at h0
      exact absurd h0 (by decide)
  rw [h1, decide_eq_false hx]
  simp

end Masscanned.E2E
