/-
  Proofs/C16/Glue — small lemmas used by Thm/C16: facts extracted from the spec's call readers, the
  fragment header, the record mark, signature matching, totality of the reply builder, and the
  closed terms used by the non-vacuity examples.
-/
import Masscanned.Proofs.C16.Build
import Masscanned.Spec.Signatures
open Masscanned
namespace Masscanned.C16

theorem complete_facts (p : Bytes) (h : Spec.callHeaderComplete p = true) :
    40 ≤ p.length ∧ Spec.be32 p 4 = 0 ∧ 32 + Spec.be32 p 28 + 8 ≤ p.length := by
  simpa [Spec.callHeaderComplete, and_assoc] using h


/-- a complete call (spec reader: padded credentials and verifier) has a complete header, and the
    spec reader returns the fields found at the fixed offsets -/
theorem parseCall_facts (p : Bytes) (c : Spec.RpcCall) (h : Spec.parseCall p = some c) :
    Spec.callHeaderComplete p = true ∧ c.xid = Spec.be32 p 0 ∧ c.prog = Spec.be32 p 12 ∧
      c.vers = Spec.be32 p 16 ∧ c.proc = Spec.be32 p 20 := by
  unfold Spec.parseCall at h
  simp only [] at h
  split at h; · cases h
  split at h; · cases h
  split at h; · cases h
  split at h; · cases h
  cases h
  refine ⟨?_, rfl, rfl, rfl, rfl⟩
  simp only [Spec.callHeaderComplete, Bool.and_eq_true, decide_eq_true_eq]
  omega


theorem read_frag (ovf : Bool) (a b c d : UInt8) (t : Bytes) :
    rpcParse ovf {} (a :: b :: c :: d :: t) =
      rpcParse ovf { state := .xid, lastFrag := decide (a.toNat ≥ 128), fragLen := d.toNat } t := by
  simp [rpcParse, rpcByte, rpcAdvance]

theorem record_mark (resp : Bytes) (h : resp.length < 2147483648) :
    Spec.recordMarkOk
      ([byte (resp.length / 16777216 % 256 + (if resp.length / 16777216 % 256 < 128 then 128 else 0)),
        byte (resp.length / 65536), byte (resp.length / 256), byte resp.length] ++ resp) = some resp := by
  have h128 : resp.length / 16777216 % 256 < 128 := by omega
  rw [if_pos h128]
  unfold Spec.recordMarkOk
  simp [Spec.be32, Spec.be16, Spec.u8, byte_toNat]
  omega


theorem pm_cons (s : Spec.Sym) (ps : List Spec.Sym) (p : Bytes) (h : Spec.prefixMatch (s :: ps) p = true) :
    ∃ b t, p = b :: t ∧ Spec.symMatch s b = true ∧ Spec.prefixMatch ps t = true := by
  cases p with
  | nil => simp [Spec.prefixMatch] at h
  | cons b t => simp [Spec.prefixMatch] at h; exact ⟨b, t, rfl, h.1, h.2⟩

theorem rpcCall_eq : Spec.rpcCall =
    [.any, .any, .any, .any, .lit 0, .lit 0, .lit 0, .lit 0, .lit 0, .lit 0, .lit 0, .any,
     .lit 0, .lit 1, .lit 0x86, .any, .any, .any, .any, .any, .lit 0, .lit 0, .lit 0, .any] := by
  decide


theorem rpcParse_inv (ovf : Bool) (s : RpcSt) (d : Bytes) (h : RpcInv s) :
    ∃ s', rpcParse ovf s d = .ok s' ∧ RpcInv s' := by
  induction d generalizing s with
  | nil => exact ⟨s, rfl, h⟩
  | cons b t ih =>
    obtain ⟨s1, h1, hi1⟩ := rpcByte_inv ovf s b h
    rw [rpcParse, h1]
    exact ih s1 hi1

/-- `rpcPortmap` is only called with a version in 2..4: `.rpcVersion` ("Wrong RPC version") is unreachable -/
theorem rpcPortmap_total (s : RpcSt) (ip : Ip) (port : Nat) (hv : ¬(s.progVersion < 2 ∨ s.progVersion > 4)) :
    ∃ body, rpcPortmap s ip port = .ok body := by
  have h : s.progVersion = 2 ∨ s.progVersion = 3 ∨ s.progVersion = 4 := by omega
  unfold rpcPortmap
  rcases h with h | h | h <;> simp [h] <;> split <;> (try split) <;> simp

theorem rpcBuild_total (s : RpcSt) (ci : ClientInfo) (ip : Ip) (port : Nat)
    (hip : ci.ipDst = some ip) (hport : ci.portDst = some port) : ∃ r, rpcBuild s ci = .ok r := by
  by_cases hv : s.progVersion < 2 ∨ s.progVersion > 4
  · exact ⟨_, build_mismatch s ci hv⟩
  by_cases h0 : s.procedure = 0
  · exact ⟨_, build_null s ci hv h0⟩
  by_cases hpr : s.program = 100000
  · obtain ⟨body, hb⟩ := rpcPortmap_total s ip port hv
    exact ⟨_, by rw [build_portmap s ci ip port hip hport hv h0 hpr, hb]⟩
  · exact ⟨_, build_other s ci hv h0 hpr⟩


def mkCall (xid prog vers proc : Nat) : Bytes :=
  u32be xid ++ u32be 0 ++ u32be 2 ++ u32be prog ++ u32be vers ++ u32be proc ++
  u32be 0 ++ u32be 0 ++ u32be 0 ++ u32be 0

/-- AUTH_UNIX-like credentials of 5 bytes (padded to 8 on the wire) -/
def mkCallCred (xid prog vers proc : Nat) : Bytes :=
  u32be xid ++ u32be 0 ++ u32be 2 ++ u32be prog ++ u32be vers ++ u32be proc ++
  u32be 1 ++ u32be 5 ++ [1, 2, 3, 4, 5, 0, 0, 0] ++ u32be 0 ++ u32be 0

def tcpMsg (c : Bytes) : Bytes := [0x80, 0, 0, byte c.length] ++ c

def ip4 : Ip := .v4 [192, 0, 0, 1]
def ip6 : Ip := .v6 [0x20, 0x01, 0x0d, 0xb8, 0, 0, 0, 0, 0, 0, 0, 0, 0, 0, 0, 1]
def ci4 : ClientInfo := { ipDst := some ip4, portDst := some 111 }
def ci6 : ClientInfo := { ipDst := some ip6, portDst := some 111 }

/-- hypotheses and conclusion of `rpc_reply_udp` / `rpc_reply_tcp` on a concrete call -/
def udpCase (ovf : Bool) (ci : ClientInfo) (ip : Ip) (p : Bytes) (c : Spec.RpcCall) (hex : String) : Bool :=
  Spec.callHeaderComplete p && decide (Spec.parseCall p = some c) &&
  (match rpcReplUdp ovf ci p with
   | .ok (some r) => hexOf r == hex && Spec.rpcReplyOk c r ip 111
   | _ => false)

def tcpCase (ovf : Bool) (ci : ClientInfo) (ip : Ip) (p : Bytes) (c : Spec.RpcCall) : Bool :=
  decide (Spec.parseCall (p.drop 4) = some c) &&
  (match rpcReplTcp ovf {} ci p with
   | .ok (_, some r) => (match Spec.recordMarkOk r with
      | some body => Spec.rpcReplyOk c body ip 111
      | none => false)
   | _ => false)


def v6 (segs : List Nat) : Bytes := segs.flatMap u16be
def txt (s : String) : Bytes := s.toUTF8.toList
def v6Test (segs : List Nat) (s : String) : Bool :=
  showV6 (v6 segs) == txt s && Spec.ipv6Text (v6 segs) == txt s


end Masscanned.C16
