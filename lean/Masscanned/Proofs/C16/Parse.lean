/-
  Proofs/C16/Parse — the ONC-RPC call FSM (`rpcByte` / `rpcParse`): byte-fold law, invariant
  (no panic), and the exact result on a datagram whose call header is complete.
-/
import Masscanned.Model.Rpc
import Masscanned.Spec.Rpc
import Masscanned.Proofs.Bytes
namespace Masscanned.C16
open Masscanned

/-! ### the parser is a byte fold -/

theorem rpcParse_nil (ovf : Bool) (s : RpcSt) : rpcParse ovf s [] = .ok s := rfl

theorem rpcParse_cons (ovf : Bool) (s : RpcSt) (b : UInt8) (t : Bytes) :
    rpcParse ovf s (b :: t) = (rpcByte ovf s b).bind (fun s' => rpcParse ovf s' t) := by
  rw [rpcParse]; cases rpcByte ovf s b <;> rfl

theorem rpcParse_append (ovf : Bool) (s : RpcSt) (a b : Bytes) :
    rpcParse ovf s (a ++ b) = (rpcParse ovf s a).bind (fun s' => rpcParse ovf s' b) := by
  induction a generalizing s with
  | nil => rfl
  | cons x a ih =>
    rw [List.cons_append, rpcParse_cons, rpcParse_cons]
    cases rpcByte ovf s x with
    | error e => rfl
    | ok s' => exact ih s'

theorem rpcParse_done (ovf : Bool) (s : RpcSt) (d : Bytes) (h : s.state = .done) :
    rpcParse ovf s d = .ok s := by
  induction d with
  | nil => rfl
  | cons b t ih =>
    rw [rpcParse]
    have : rpcByte ovf s b = .ok s := by unfold rpcByte; rw [h]
    rw [this]; exact ih

/-! ### accumulation of a 4-byte field without overflow -/

theorem rpcAcc_lt (ovf : Bool) (v : Nat) (b : UInt8) (h : v < 16777216) :
    rpcAcc ovf v b = .ok (v * 256 + b.toNat) := by
  have := b.toNat_lt
  unfold rpcAcc
  simp only []
  rw [if_pos (by omega)]

/-! ### reading the fields of a call -/

def acc4 (b0 b1 b2 b3 : UInt8) : Nat := ((b0.toNat * 256 + b1.toNat) * 256 + b2.toNat) * 256 + b3.toNat

theorem read4_xid (ovf : Bool) (s : RpcSt) (b0 b1 b2 b3 : UInt8) (t : Bytes)
    (h : s.state = .xid) (hc : s.curLen = 0) (h0 : s.xid = 0) :
    rpcParse ovf s (b0 :: b1 :: b2 :: b3 :: t) =
      rpcParse ovf { s with state := .messageType, xid := acc4 b0 b1 b2 b3 } t := by
  obtain ⟨st, lf, fl, xid, mt, rv, prog, pv, proc, cf, vf, cur, dl⟩ := s
  simp only at h hc h0; subst h hc h0
  have := b0.toNat_lt; have := b1.toNat_lt; have := b2.toNat_lt; have := b3.toNat_lt
  simp (disch := omega) [rpcParse, rpcByte, rpcAdvance, rpcAcc_lt, acc4]

theorem read4_messageType (ovf : Bool) (s : RpcSt) (b0 b1 b2 b3 : UInt8) (t : Bytes)
    (h : s.state = .messageType) (hc : s.curLen = 0) (h0 : s.messageType = 0) :
    rpcParse ovf s (b0 :: b1 :: b2 :: b3 :: t) =
      rpcParse ovf { s with state := .rpcVersion, messageType := acc4 b0 b1 b2 b3 } t := by
  obtain ⟨st, lf, fl, xid, mt, rv, prog, pv, proc, cf, vf, cur, dl⟩ := s
  simp only at h hc h0; subst h hc h0
  have := b0.toNat_lt; have := b1.toNat_lt; have := b2.toNat_lt; have := b3.toNat_lt
  simp (disch := omega) [rpcParse, rpcByte, rpcAdvance, rpcAcc_lt, acc4]

theorem read4_rpcVersion (ovf : Bool) (s : RpcSt) (b0 b1 b2 b3 : UInt8) (t : Bytes)
    (h : s.state = .rpcVersion) (hc : s.curLen = 0) (h0 : s.rpcVersion = 0) :
    rpcParse ovf s (b0 :: b1 :: b2 :: b3 :: t) =
      rpcParse ovf { s with state := .program, rpcVersion := acc4 b0 b1 b2 b3 } t := by
  obtain ⟨st, lf, fl, xid, mt, rv, prog, pv, proc, cf, vf, cur, dl⟩ := s
  simp only at h hc h0; subst h hc h0
  have := b0.toNat_lt; have := b1.toNat_lt; have := b2.toNat_lt; have := b3.toNat_lt
  simp (disch := omega) [rpcParse, rpcByte, rpcAdvance, rpcAcc_lt, acc4]

theorem read4_program (ovf : Bool) (s : RpcSt) (b0 b1 b2 b3 : UInt8) (t : Bytes)
    (h : s.state = .program) (hc : s.curLen = 0) (h0 : s.program = 0) :
    rpcParse ovf s (b0 :: b1 :: b2 :: b3 :: t) =
      rpcParse ovf { s with state := .programVersion, program := acc4 b0 b1 b2 b3 } t := by
  obtain ⟨st, lf, fl, xid, mt, rv, prog, pv, proc, cf, vf, cur, dl⟩ := s
  simp only at h hc h0; subst h hc h0
  have := b0.toNat_lt; have := b1.toNat_lt; have := b2.toNat_lt; have := b3.toNat_lt
  simp (disch := omega) [rpcParse, rpcByte, rpcAdvance, rpcAcc_lt, acc4]

theorem read4_programVersion (ovf : Bool) (s : RpcSt) (b0 b1 b2 b3 : UInt8) (t : Bytes)
    (h : s.state = .programVersion) (hc : s.curLen = 0) (h0 : s.progVersion = 0) :
    rpcParse ovf s (b0 :: b1 :: b2 :: b3 :: t) =
      rpcParse ovf { s with state := .procedure, progVersion := acc4 b0 b1 b2 b3 } t := by
  obtain ⟨st, lf, fl, xid, mt, rv, prog, pv, proc, cf, vf, cur, dl⟩ := s
  simp only at h hc h0; subst h hc h0
  have := b0.toNat_lt; have := b1.toNat_lt; have := b2.toNat_lt; have := b3.toNat_lt
  simp (disch := omega) [rpcParse, rpcByte, rpcAdvance, rpcAcc_lt, acc4]

theorem read4_procedure (ovf : Bool) (s : RpcSt) (b0 b1 b2 b3 : UInt8) (t : Bytes)
    (h : s.state = .procedure) (hc : s.curLen = 0) (h0 : s.procedure = 0) :
    rpcParse ovf s (b0 :: b1 :: b2 :: b3 :: t) =
      rpcParse ovf { s with state := .credsFlavor, procedure := acc4 b0 b1 b2 b3 } t := by
  obtain ⟨st, lf, fl, xid, mt, rv, prog, pv, proc, cf, vf, cur, dl⟩ := s
  simp only at h hc h0; subst h hc h0
  have := b0.toNat_lt; have := b1.toNat_lt; have := b2.toNat_lt; have := b3.toNat_lt
  simp (disch := omega) [rpcParse, rpcByte, rpcAdvance, rpcAcc_lt, acc4]

theorem read4_credsFlavor (ovf : Bool) (s : RpcSt) (b0 b1 b2 b3 : UInt8) (t : Bytes)
    (h : s.state = .credsFlavor) (hc : s.curLen = 0) (h0 : s.credsFlavor = 0) :
    rpcParse ovf s (b0 :: b1 :: b2 :: b3 :: t) =
      rpcParse ovf { s with state := .credsLen, credsFlavor := acc4 b0 b1 b2 b3 } t := by
  obtain ⟨st, lf, fl, xid, mt, rv, prog, pv, proc, cf, vf, cur, dl⟩ := s
  simp only at h hc h0; subst h hc h0
  have := b0.toNat_lt; have := b1.toNat_lt; have := b2.toNat_lt; have := b3.toNat_lt
  simp (disch := omega) [rpcParse, rpcByte, rpcAdvance, rpcAcc_lt, acc4]

theorem read4_verifFlavor (ovf : Bool) (s : RpcSt) (b0 b1 b2 b3 : UInt8) (t : Bytes)
    (h : s.state = .verifFlavor) (hc : s.curLen = 0) (h0 : s.verifFlavor = 0) :
    rpcParse ovf s (b0 :: b1 :: b2 :: b3 :: t) =
      rpcParse ovf { s with state := .verifLen, verifFlavor := acc4 b0 b1 b2 b3 } t := by
  obtain ⟨st, lf, fl, xid, mt, rv, prog, pv, proc, cf, vf, cur, dl⟩ := s
  simp only at h hc h0; subst h hc h0
  have := b0.toNat_lt; have := b1.toNat_lt; have := b2.toNat_lt; have := b3.toNat_lt
  simp (disch := omega) [rpcParse, rpcByte, rpcAdvance, rpcAcc_lt, acc4]

theorem read4_credsLen (ovf : Bool) (s : RpcSt) (b0 b1 b2 b3 : UInt8) (t : Bytes)
    (h : s.state = .credsLen) (hc : s.curLen = 0) (h0 : s.dataLen = 0) :
    rpcParse ovf s (b0 :: b1 :: b2 :: b3 :: t) =
      rpcParse ovf { s with state := if acc4 b0 b1 b2 b3 = 0 then .verifFlavor else .creds,
                            dataLen := acc4 b0 b1 b2 b3 } t := by
  obtain ⟨st, lf, fl, xid, mt, rv, prog, pv, proc, cf, vf, cur, dl⟩ := s
  simp only at h hc h0; subst h hc h0
  have := b0.toNat_lt; have := b1.toNat_lt; have := b2.toNat_lt; have := b3.toNat_lt
  simp (disch := omega) [rpcParse, rpcByte, rpcAdvance, rpcAcc_lt, acc4]
  split <;> rfl

theorem read4_verifLen (ovf : Bool) (s : RpcSt) (b0 b1 b2 b3 : UInt8) (t : Bytes)
    (h : s.state = .verifLen) (hc : s.curLen = 0) (h0 : s.dataLen = 0) :
    rpcParse ovf s (b0 :: b1 :: b2 :: b3 :: t) =
      .ok { s with state := .done, dataLen := acc4 b0 b1 b2 b3 } := by
  obtain ⟨st, lf, fl, xid, mt, rv, prog, pv, proc, cf, vf, cur, dl⟩ := s
  simp only at h hc h0; subst h hc h0
  have := b0.toNat_lt; have := b1.toNat_lt; have := b2.toNat_lt; have := b3.toNat_lt
  simp (disch := omega) [rpcParse, rpcByte, rpcAdvance, rpcAcc_lt, acc4]
  exact rpcParse_done _ _ _ rfl

/-- credentials are skipped byte by byte (no XDR padding) -/
theorem skip_creds (ovf : Bool) (n : Nat) (s : RpcSt) (a t : Bytes)
    (h : s.state = .creds) (hd : s.dataLen = n + 1) (ha : a.length = n + 1) :
    rpcParse ovf s (a ++ t) = rpcParse ovf { s with state := .verifFlavor, dataLen := 0 } t := by
  induction n generalizing s a with
  | zero =>
    match a, ha with
    | [x], _ =>
      obtain ⟨st, lf, fl, xid, mt, rv, prog, pv, proc, cf, vf, cur, dl⟩ := s
      simp only at h hd; subst h hd
      simp [rpcParse, rpcByte]
  | succ n ih =>
    match a, ha with
    | x :: a', ha' =>
      obtain ⟨st, lf, fl, xid, mt, rv, prog, pv, proc, cf, vf, cur, dl⟩ := s
      simp only at h hd; subst h hd
      simp only [List.cons_append, rpcParse, rpcByte]
      simp only [Nat.add_one_ne_zero, if_false, Nat.add_sub_cancel]
      rw [ih _ a' rfl rfl (by simpa using ha')]

theorem list_len4 (l : Bytes) (h : 4 ≤ l.length) : ∃ a b c d t, l = a :: b :: c :: d :: t := by
  match l, h with
  | a :: b :: c :: d :: t, _ => exact ⟨a, b, c, d, t, rfl⟩

theorem be32_cons4 (a b c d : UInt8) (t : Bytes) : Spec.be32 (a :: b :: c :: d :: t) 0 = acc4 a b c d := by
  have := a.toNat_lt; have := b.toNat_lt; have := c.toNat_lt; have := d.toNat_lt
  simp [Spec.be32, Spec.be16, Spec.u8, acc4]; omega

theorem be32_drop (p : Bytes) (i j : Nat) : Spec.be32 (p.drop i) j = Spec.be32 p (i + j) := by
  simp only [Spec.be32, Spec.be16, u8_drop]; rfl

theorem read4'_xid (ovf : Bool) (s : RpcSt) (l : Bytes) (hl : 4 ≤ l.length)
    (h : s.state = .xid) (hc : s.curLen = 0) (h0 : s.xid = 0) :
    rpcParse ovf s l = rpcParse ovf { s with state := .messageType, xid := Spec.be32 l 0 } (l.drop 4) := by
  obtain ⟨a, b, c, d, t, rfl⟩ := list_len4 l hl
  rw [read4_xid ovf s a b c d t h hc h0, be32_cons4]; rfl

theorem read4'_messageType (ovf : Bool) (s : RpcSt) (l : Bytes) (hl : 4 ≤ l.length)
    (h : s.state = .messageType) (hc : s.curLen = 0) (h0 : s.messageType = 0) :
    rpcParse ovf s l = rpcParse ovf { s with state := .rpcVersion, messageType := Spec.be32 l 0 } (l.drop 4) := by
  obtain ⟨a, b, c, d, t, rfl⟩ := list_len4 l hl
  rw [read4_messageType ovf s a b c d t h hc h0, be32_cons4]; rfl

theorem read4'_rpcVersion (ovf : Bool) (s : RpcSt) (l : Bytes) (hl : 4 ≤ l.length)
    (h : s.state = .rpcVersion) (hc : s.curLen = 0) (h0 : s.rpcVersion = 0) :
    rpcParse ovf s l = rpcParse ovf { s with state := .program, rpcVersion := Spec.be32 l 0 } (l.drop 4) := by
  obtain ⟨a, b, c, d, t, rfl⟩ := list_len4 l hl
  rw [read4_rpcVersion ovf s a b c d t h hc h0, be32_cons4]; rfl

theorem read4'_program (ovf : Bool) (s : RpcSt) (l : Bytes) (hl : 4 ≤ l.length)
    (h : s.state = .program) (hc : s.curLen = 0) (h0 : s.program = 0) :
    rpcParse ovf s l = rpcParse ovf { s with state := .programVersion, program := Spec.be32 l 0 } (l.drop 4) := by
  obtain ⟨a, b, c, d, t, rfl⟩ := list_len4 l hl
  rw [read4_program ovf s a b c d t h hc h0, be32_cons4]; rfl

theorem read4'_programVersion (ovf : Bool) (s : RpcSt) (l : Bytes) (hl : 4 ≤ l.length)
    (h : s.state = .programVersion) (hc : s.curLen = 0) (h0 : s.progVersion = 0) :
    rpcParse ovf s l = rpcParse ovf { s with state := .procedure, progVersion := Spec.be32 l 0 } (l.drop 4) := by
  obtain ⟨a, b, c, d, t, rfl⟩ := list_len4 l hl
  rw [read4_programVersion ovf s a b c d t h hc h0, be32_cons4]; rfl

theorem read4'_procedure (ovf : Bool) (s : RpcSt) (l : Bytes) (hl : 4 ≤ l.length)
    (h : s.state = .procedure) (hc : s.curLen = 0) (h0 : s.procedure = 0) :
    rpcParse ovf s l = rpcParse ovf { s with state := .credsFlavor, procedure := Spec.be32 l 0 } (l.drop 4) := by
  obtain ⟨a, b, c, d, t, rfl⟩ := list_len4 l hl
  rw [read4_procedure ovf s a b c d t h hc h0, be32_cons4]; rfl

theorem read4'_credsFlavor (ovf : Bool) (s : RpcSt) (l : Bytes) (hl : 4 ≤ l.length)
    (h : s.state = .credsFlavor) (hc : s.curLen = 0) (h0 : s.credsFlavor = 0) :
    rpcParse ovf s l = rpcParse ovf { s with state := .credsLen, credsFlavor := Spec.be32 l 0 } (l.drop 4) := by
  obtain ⟨a, b, c, d, t, rfl⟩ := list_len4 l hl
  rw [read4_credsFlavor ovf s a b c d t h hc h0, be32_cons4]; rfl

theorem read4'_verifFlavor (ovf : Bool) (s : RpcSt) (l : Bytes) (hl : 4 ≤ l.length)
    (h : s.state = .verifFlavor) (hc : s.curLen = 0) (h0 : s.verifFlavor = 0) :
    rpcParse ovf s l = rpcParse ovf { s with state := .verifLen, verifFlavor := Spec.be32 l 0 } (l.drop 4) := by
  obtain ⟨a, b, c, d, t, rfl⟩ := list_len4 l hl
  rw [read4_verifFlavor ovf s a b c d t h hc h0, be32_cons4]; rfl

theorem read4'_credsLen (ovf : Bool) (s : RpcSt) (l : Bytes) (hl : 4 ≤ l.length)
    (h : s.state = .credsLen) (hc : s.curLen = 0) (h0 : s.dataLen = 0) :
    rpcParse ovf s l =
      rpcParse ovf { s with state := if Spec.be32 l 0 = 0 then .verifFlavor else .creds,
                            dataLen := Spec.be32 l 0 } (l.drop 4) := by
  obtain ⟨a, b, c, d, t, rfl⟩ := list_len4 l hl
  rw [read4_credsLen ovf s a b c d t h hc h0, be32_cons4]; rfl

theorem read4'_verifLen (ovf : Bool) (s : RpcSt) (l : Bytes) (hl : 4 ≤ l.length)
    (h : s.state = .verifLen) (hc : s.curLen = 0) (h0 : s.dataLen = 0) :
    rpcParse ovf s l = .ok { s with state := .done, dataLen := Spec.be32 l 0 } := by
  obtain ⟨a, b, c, d, t, rfl⟩ := list_len4 l hl
  rw [read4_verifLen ovf s a b c d t h hc h0, be32_cons4]

/-- the state reached on a datagram whose call header is complete -/
def hdrState (lf : Bool) (fl : Nat) (p : Bytes) : RpcSt :=
  { state := .done, lastFrag := lf, fragLen := fl, xid := Spec.be32 p 0, messageType := Spec.be32 p 4,
    rpcVersion := Spec.be32 p 8, program := Spec.be32 p 12, progVersion := Spec.be32 p 16,
    procedure := Spec.be32 p 20, credsFlavor := Spec.be32 p 24,
    verifFlavor := Spec.be32 p (32 + Spec.be32 p 28), curLen := 0,
    dataLen := Spec.be32 p (32 + Spec.be32 p 28 + 4) }

theorem parse_header_from (ovf : Bool) (lf : Bool) (fl : Nat) (p : Bytes)
    (h40 : 40 ≤ p.length) (hc : 32 + Spec.be32 p 28 + 8 ≤ p.length) :
    rpcParse ovf { state := .xid, lastFrag := lf, fragLen := fl } p = .ok (hdrState lf fl p) := by
  rw [read4'_xid ovf _ p (by omega) rfl rfl rfl]
  rw [read4'_messageType ovf _ _ (by simp; omega) rfl rfl rfl]
  rw [read4'_rpcVersion ovf _ _ (by simp; omega) rfl rfl rfl]
  rw [read4'_program ovf _ _ (by simp; omega) rfl rfl rfl]
  rw [read4'_programVersion ovf _ _ (by simp; omega) rfl rfl rfl]
  rw [read4'_procedure ovf _ _ (by simp; omega) rfl rfl rfl]
  rw [read4'_credsFlavor ovf _ _ (by simp; omega) rfl rfl rfl]
  rw [read4'_credsLen ovf _ _ (by simp; omega) rfl rfl rfl]
  simp only [List.drop_drop, be32_drop, Nat.add_zero, Nat.reduceAdd]
  generalize hL : Spec.be32 p 28 = L at *
  have key : ∀ s : RpcSt, s.state = .verifFlavor → s.curLen = 0 → s.verifFlavor = 0 → s.dataLen = 0 →
      rpcParse ovf s (p.drop (32 + L)) =
        .ok { s with state := .done, verifFlavor := Spec.be32 p (32 + L), dataLen := Spec.be32 p (32 + L + 4) } := by
    intro s h1 h2 h3 h4
    rw [read4'_verifFlavor ovf _ _ (by simp; omega) h1 h2 h3]
    rw [read4'_verifLen ovf _ _ (by simp; omega) rfl (by simpa using h2) (by simpa using h4)]
    simp only [List.drop_drop, be32_drop, Nat.add_zero]
  cases L with
  | zero =>
    simp only [if_true]
    rw [key _ rfl rfl rfl rfl]; simp [hdrState, hL]
  | succ n =>
    simp only [Nat.add_one_ne_zero, if_false]
    have hs : p.drop 32 = (p.drop 32).take (n + 1) ++ p.drop (32 + (n + 1)) := by
      rw [← List.drop_drop, List.take_append_drop]
    rw [hs, skip_creds ovf n _ _ _ rfl rfl (by simp; omega)]
    rw [key _ rfl rfl rfl rfl]; simp [hdrState, hL]

/-! ### invariant of the FSM: no overflow, no underflow -/

def rank : RpcPhase → Nat
  | .frag => 0 | .xid => 1 | .messageType => 2 | .rpcVersion => 3 | .program => 4
  | .programVersion => 5 | .procedure => 6 | .credsFlavor => 7 | .credsLen => 8 | .creds => 9
  | .verifFlavor => 10 | .verifLen => 11 | .verif => 12 | .done => 13

/-- bound of a field being accumulated: `< 256 ^ curLen` -/
def pw : Nat → Nat
  | 0 => 1 | 1 => 256 | 2 => 65536 | _ => 16777216

/-- a field read in phase of rank `k`: still 0 before, `< 256^curLen` while being read -/
def fieldOk (s : RpcSt) (k v : Nat) : Prop :=
  (rank s.state < k → v = 0) ∧ (rank s.state = k → v < pw s.curLen)

structure RpcInv (s : RpcSt) : Prop where
  cur : s.curLen < 4
  xid : fieldOk s 1 s.xid
  mt : fieldOk s 2 s.messageType
  rv : fieldOk s 3 s.rpcVersion
  prog : fieldOk s 4 s.program
  pv : fieldOk s 5 s.progVersion
  proc : fieldOk s 6 s.procedure
  cf : fieldOk s 7 s.credsFlavor
  cl : fieldOk s 8 s.dataLen
  creds : s.state = .creds → s.dataLen > 0 ∧ s.curLen = 0
  vf : fieldOk s 10 s.verifFlavor
  vfl : s.state = .verifFlavor → s.dataLen = 0
  vl : s.state = .verifLen → s.dataLen < pw s.curLen
  verif : s.state ≠ .verif

theorem rpcInv_init : RpcInv {} := by
  constructor <;> simp [fieldOk, rank, pw]

theorem rpcInv_udp (n : Nat) : RpcInv { state := .xid, lastFrag := true, fragLen := n } := by
  constructor <;> simp [fieldOk, rank, pw]

theorem rpcByte_inv (ovf : Bool) (s : RpcSt) (b : UInt8) (h : RpcInv s) :
    ∃ s', rpcByte ovf s b = .ok s' ∧ RpcInv s' := by
  obtain ⟨st, lf, fl, xid, mt, rv, prog, pv, proc, cf, vf, cur, dl⟩ := s
  obtain ⟨h1, h2, h3, h4, h5, h6, h7, h8, h9, h10, h11, h12, h13, h14⟩ := h
  simp only [fieldOk] at *
  have hb := b.toNat_lt
  have hc : cur = 0 ∨ cur = 1 ∨ cur = 2 ∨ cur = 3 := by omega
  cases st <;> simp only [rank] at * <;> rcases hc with rfl | rfl | rfl | rfl <;> simp [pw] at * <;>
    (try (have hd : dl ≠ 0 := by omega)) <;>
    simp (disch := omega) [rpcByte, rpcAdvance, rpcAcc_lt, *] <;>
    (try split) <;> (constructor <;> (try simp [fieldOk, rank, pw]) <;> (try omega))

end Masscanned.C16
