/-
  Proofs/C16/Reply — the reply built by `rpcBuild` read back by the spec's XDR reader:
  `Spec.xdrOpaque` on `xdrString`, `Spec.parseReply` on the reply header, the DUMP list readers.
-/
import Masscanned.Proofs.C16.Ip
import Masscanned.Proofs.C16.Parse
namespace Masscanned.C16
open Masscanned

theorem be32_u32be (n : Nat) (h : n < 4294967296) (t : Bytes) : Spec.be32 (u32be n ++ t) 0 = n := by
  simp [u32be, Spec.be32, Spec.be16, Spec.u8, byte_toNat]; omega

theorem u32be_length (n : Nat) : (u32be n).length = 4 := rfl

theorem drop_app (a b : Bytes) (n i : Nat) (h : a.length = n) : (a ++ b).drop (n + i) = b.drop i := by
  subst h; simp

theorem xdrString_length (s : Bytes) : (xdrString s).length = (s.length + 3) / 4 * 4 + 4 := by
  simp [xdrString, zeros, u32be_length]; omega

theorem xdrOpaque_xdrString (s t : Bytes) (h : s.length < 4294967296) :
    Spec.xdrOpaque (xdrString s ++ t) = some (s, t) := by
  have hl := xdrString_length s
  unfold Spec.xdrOpaque
  have hb : Spec.be32 (xdrString s ++ t) 0 = s.length := by
    unfold xdrString; rw [List.append_assoc, List.append_assoc]; exact be32_u32be _ h _
  rw [hb]
  simp only [List.length_append, hl]
  rw [if_neg (by omega), if_neg (by omega)]
  have hk : (s.length + 3) / 4 * 4 - s.length = (4 - s.length % 4) % 4 := by omega
  have e0 : xdrString s ++ t = u32be s.length ++ (s ++ (zeros ((4 - s.length % 4) % 4) ++ t)) := by
    simp [xdrString]
  have e1 : (xdrString s ++ t).drop (4 + s.length) = zeros ((4 - s.length % 4) % 4) ++ t := by
    rw [e0, drop_app _ _ 4 _ rfl, ← Nat.add_zero s.length, drop_app _ _ _ _ rfl]; rfl
  have e2 : (xdrString s ++ t).drop 4 = s ++ (zeros ((4 - s.length % 4) % 4) ++ t) := by
    rw [e0, ← Nat.add_zero 4, drop_app _ _ 4 _ rfl]; rfl
  have e3 : (xdrString s ++ t).drop (4 + (s.length + 3) / 4 * 4) = t := by
    rw [show 4 + (s.length + 3) / 4 * 4 = (xdrString s).length + 0 by omega, drop_app _ _ _ _ rfl]; rfl
  rw [e1, e2, e3, hk]
  simp [zeros]

def replyHdr (xid : Nat) : Bytes := u32be xid ++ [0, 0, 0, 1, 0, 0, 0, 0, 0, 0, 0, 0, 0, 0, 0, 0]

theorem parseReply_built (xid : Nat) (hx : xid < 4294967296) (st : UInt8) (X : Bytes) (hX : X.length % 4 = 0) :
    Spec.parseReply (replyHdr xid ++ ([0, 0, 0, st] ++ X)) =
      (if st.toNat = 0 then some { xid := xid, body := .success X }
       else if st.toNat = 2 then
         (if X.length = 8 then some { xid := xid, body := .progMismatch (Spec.be32 X 0) (Spec.be32 X 4) } else none)
       else if X.isEmpty then
         some { xid := xid, body := if st.toNat = 1 then .progUnavail else if st.toNat = 3 then .procUnavail
                                     else .other st.toNat }
       else none) := by
  have e : replyHdr xid ++ ([0, 0, 0, st] ++ X) =
      byte (xid / 16777216) :: byte (xid / 65536) :: byte (xid / 256) :: byte xid ::
        0 :: 0 :: 0 :: 1 :: 0 :: 0 :: 0 :: 0 :: 0 :: 0 :: 0 :: 0 :: 0 :: 0 :: 0 :: 0 :: 0 :: 0 :: 0 :: st :: X := rfl
  rw [e]
  have hxid : Spec.be32 (byte (xid / 16777216) :: byte (xid / 65536) :: byte (xid / 256) :: byte xid ::
        0 :: 0 :: 0 :: 1 :: 0 :: 0 :: 0 :: 0 :: 0 :: 0 :: 0 :: 0 :: 0 :: 0 :: 0 :: 0 :: 0 :: 0 :: 0 :: st :: X) 0 = xid := by
    simp [Spec.be32, Spec.be16, Spec.u8, byte_toNat]; omega
  unfold Spec.parseReply
  rw [hxid]
  simp [Spec.be32, Spec.be16, Spec.u8]
  omega

theorem be32_at4 (x : Bytes) (k : Nat) (hk : x.length = k) (n : Nat) (h : n < 4294967296) (t : Bytes) :
    Spec.be32 (x ++ (u32be n ++ t)) k = n := by
  subst hk
  have := be32_drop (x ++ (u32be n ++ t)) x.length 0
  rw [Nat.add_zero] at this; rw [← this, List.drop_left]; exact be32_u32be n h t

theorem readRpcb_entry (fuel a b : Nat) (n u o t : Bytes) (ha : a < 4294967296) (hb : b < 4294967296)
    (hn : n.length < 4294967296) (hu : u.length < 4294967296) (ho : o.length < 4294967296) :
    Spec.readRpcbList (fuel + 1)
        ([0, 0, 0, 1] ++ u32be a ++ u32be b ++ xdrString n ++ xdrString u ++ xdrString o ++ t) =
      match Spec.readRpcbList fuel t with
      | none => none
      | some l => some ((a, b, n, u, o) :: l) := by
  have e : [0, 0, 0, 1] ++ u32be a ++ u32be b ++ xdrString n ++ xdrString u ++ xdrString o ++ t =
      [0, 0, 0, 1] ++ (u32be a ++ (u32be b ++ (xdrString n ++ (xdrString u ++ (xdrString o ++ t))))) := by
    simp only [List.append_assoc]
  rw [e]
  generalize hR : xdrString n ++ (xdrString u ++ (xdrString o ++ t)) = R
  have h0 : Spec.be32 ([0, 0, 0, 1] ++ (u32be a ++ (u32be b ++ R))) 0 = 1 := by
    simp [Spec.be32, Spec.be16, Spec.u8]
  have h4 : Spec.be32 ([0, 0, 0, 1] ++ (u32be a ++ (u32be b ++ R))) 4 = a := be32_at4 [0, 0, 0, 1] 4 rfl a ha _
  have h8 : Spec.be32 ([0, 0, 0, 1] ++ (u32be a ++ (u32be b ++ R))) 8 = b := by
    have := be32_at4 ([0, 0, 0, 1] ++ u32be a) 8 rfl b hb R
    simpa only [List.append_assoc] using this
  have hd : ([0, 0, 0, 1] ++ (u32be a ++ (u32be b ++ R))).drop 12 = R := by
    simp [u32be]
  have hlen : ([0, 0, 0, 1] ++ (u32be a ++ (u32be b ++ R))).length = 12 + R.length := by
    simp [u32be]; omega
  rw [Spec.readRpcbList, h0, h4, h8, hd, hlen]
  rw [if_neg (by omega), if_neg (by omega), if_neg (by omega)]
  subst hR
  rw [xdrOpaque_xdrString n _ hn]; dsimp only
  rw [xdrOpaque_xdrString u _ hu]; dsimp only
  rw [xdrOpaque_xdrString o _ ho]
  dsimp only
  cases Spec.readRpcbList fuel t <;> rfl

theorem readRpcb_end (fuel : Nat) : Spec.readRpcbList (fuel + 1) [0, 0, 0, 0] = some [] := by
  simp [Spec.readRpcbList, Spec.be32, Spec.be16, Spec.u8]

theorem readPmap_entry (fuel a b c d : Nat) (t : Bytes) (ha : a < 4294967296) (hb : b < 4294967296)
    (hc : c < 4294967296) (hd : d < 4294967296) :
    Spec.readPmapList (fuel + 1) ([0, 0, 0, 1] ++ u32be a ++ u32be b ++ u32be c ++ u32be d ++ t) =
      match Spec.readPmapList fuel t with
      | none => none
      | some l => some ((a, b, c, d) :: l) := by
  have e : [0, 0, 0, 1] ++ u32be a ++ u32be b ++ u32be c ++ u32be d ++ t =
      [0, 0, 0, 1] ++ (u32be a ++ (u32be b ++ (u32be c ++ (u32be d ++ t)))) := by
    simp only [List.append_assoc]
  rw [e]
  have h0 : Spec.be32 ([0, 0, 0, 1] ++ (u32be a ++ (u32be b ++ (u32be c ++ (u32be d ++ t))))) 0 = 1 := by
    simp [Spec.be32, Spec.be16, Spec.u8]
  have h4 : Spec.be32 ([0, 0, 0, 1] ++ (u32be a ++ (u32be b ++ (u32be c ++ (u32be d ++ t))))) 4 = a :=
    be32_at4 [0, 0, 0, 1] 4 rfl a ha _
  have h8 : Spec.be32 ([0, 0, 0, 1] ++ (u32be a ++ (u32be b ++ (u32be c ++ (u32be d ++ t))))) 8 = b := by
    have := be32_at4 ([0, 0, 0, 1] ++ u32be a) 8 rfl b hb (u32be c ++ (u32be d ++ t))
    simpa only [List.append_assoc] using this
  have h12 : Spec.be32 ([0, 0, 0, 1] ++ (u32be a ++ (u32be b ++ (u32be c ++ (u32be d ++ t))))) 12 = c := by
    have := be32_at4 ([0, 0, 0, 1] ++ u32be a ++ u32be b) 12 rfl c hc (u32be d ++ t)
    simpa only [List.append_assoc] using this
  have h16 : Spec.be32 ([0, 0, 0, 1] ++ (u32be a ++ (u32be b ++ (u32be c ++ (u32be d ++ t))))) 16 = d := by
    have := be32_at4 ([0, 0, 0, 1] ++ u32be a ++ u32be b ++ u32be c) 16 rfl d hd t
    simpa only [List.append_assoc] using this
  have hdr : ([0, 0, 0, 1] ++ (u32be a ++ (u32be b ++ (u32be c ++ (u32be d ++ t))))).drop 20 = t := by
    simp [u32be]
  have hlen : ([0, 0, 0, 1] ++ (u32be a ++ (u32be b ++ (u32be c ++ (u32be d ++ t))))).length = 20 + t.length := by
    simp [u32be]; omega
  rw [Spec.readPmapList, h0, h4, h8, h12, h16, hdr, hlen]
  rw [if_neg (by omega), if_neg (by omega), if_neg (by omega)]
  cases Spec.readPmapList fuel t <;> rfl

theorem readPmap_end (fuel : Nat) : Spec.readPmapList (fuel + 1) [0, 0, 0, 0] = some [] := by
  simp [Spec.readPmapList, Spec.be32, Spec.be16, Spec.u8]

end Masscanned.C16
