/-
  Proofs/C16/Build — `rpcBuild` case by case against `Spec.rpcReplyOk` (precedence rule, GETPORT /
  GETADDR / DUMP bodies), and a bound on the reply length.
-/
import Masscanned.Proofs.C16.Reply
import Masscanned.Proofs.Texts.Facts
namespace Masscanned.C16
open Masscanned

theorem be32b_eq (n : Nat) : Spec.be32b n = u32be n := by
  simp [Spec.be32b, u32be, byte]

theorem build_mismatch (s : RpcSt) (ci : ClientInfo) (h : s.progVersion < 2 ∨ s.progVersion > 4) :
    rpcBuild s ci = .ok (replyHdr s.xid ++ ([0, 0, 0, 2] ++ [0, 0, 0, 2, 0, 0, 0, 4])) := by
  unfold rpcBuild; simp only []; rw [if_pos h]; rfl

theorem ok_mismatch (c : Spec.RpcCall) (ip : Ip) (port : Nat) (hx : c.xid < 4294967296)
    (h : c.vers < 2 ∨ c.vers > 4) :
    Spec.rpcReplyOk c (replyHdr c.xid ++ ([0, 0, 0, 2] ++ [0, 0, 0, 2, 0, 0, 0, 4])) ip port = true := by
  unfold Spec.rpcReplyOk
  rw [parseReply_built _ hx 2 _ (by rfl)]
  simp [h, Spec.be32, Spec.be16, Spec.u8]

theorem build_null (s : RpcSt) (ci : ClientInfo) (h : ¬(s.progVersion < 2 ∨ s.progVersion > 4))
    (h0 : s.procedure = 0) :
    rpcBuild s ci = .ok (replyHdr s.xid ++ ([0, 0, 0, 0] ++ [])) := by
  unfold rpcBuild; simp only []; rw [if_neg h, if_pos h0]; rfl

theorem ok_null (c : Spec.RpcCall) (ip : Ip) (port : Nat) (hx : c.xid < 4294967296)
    (h : ¬(c.vers < 2 ∨ c.vers > 4)) (h0 : c.proc = 0) :
    Spec.rpcReplyOk c (replyHdr c.xid ++ ([0, 0, 0, 0] ++ [])) ip port = true := by
  unfold Spec.rpcReplyOk
  rw [parseReply_built _ hx 0 _ (by rfl)]
  simp [h, h0]

theorem build_other (s : RpcSt) (ci : ClientInfo) (h : ¬(s.progVersion < 2 ∨ s.progVersion > 4))
    (h0 : ¬s.procedure = 0) (hp : ¬s.program = 100000) :
    rpcBuild s ci = .ok (replyHdr s.xid ++ ([0, 0, 0, 1] ++ [])) := by
  unfold rpcBuild; simp only []; rw [if_neg h, if_neg h0, if_neg hp]; rfl

theorem ok_other (c : Spec.RpcCall) (ip : Ip) (port : Nat) (hx : c.xid < 4294967296)
    (h : ¬(c.vers < 2 ∨ c.vers > 4)) (h0 : ¬c.proc = 0) (hp : ¬c.prog = 100000) :
    Spec.rpcReplyOk c (replyHdr c.xid ++ ([0, 0, 0, 1] ++ [])) ip port = true := by
  unfold Spec.rpcReplyOk
  rw [parseReply_built _ hx 1 _ (by rfl)]
  simp [h, h0, hp]

theorem build_portmap (s : RpcSt) (ci : ClientInfo) (ip : Ip) (port : Nat)
    (hip : ci.ipDst = some ip) (hport : ci.portDst = some port)
    (h : ¬(s.progVersion < 2 ∨ s.progVersion > 4))
    (h0 : ¬s.procedure = 0) (hp : s.program = 100000) :
    rpcBuild s ci = match rpcPortmap s ip port with
      | .error e => .error e
      | .ok body => .ok (replyHdr s.xid ++ body) := by
  unfold rpcBuild; simp only []; rw [if_neg h, if_neg h0, if_pos hp, hip, hport]; rfl

theorem ok_procUnavail (c : Spec.RpcCall) (ip : Ip) (port : Nat) (hx : c.xid < 4294967296)
    (h : ¬(c.vers < 2 ∨ c.vers > 4)) (h0 : ¬c.proc = 0) (hp : c.prog = 100000)
    (h3 : ¬c.proc = 3) (h4 : ¬c.proc = 4) :
    Spec.rpcReplyOk c (replyHdr c.xid ++ ([0, 0, 0, 3] ++ [])) ip port = true := by
  unfold Spec.rpcReplyOk
  rw [parseReply_built _ hx 3 _ (by rfl)]
  simp [h, h0, hp, h3, h4]

theorem ok_getport (c : Spec.RpcCall) (ip : Ip) (port : Nat) (hx : c.xid < 4294967296)
    (hp : c.prog = 100000) (h3 : c.proc = 3) (h2 : c.vers = 2) :
    Spec.rpcReplyOk c (replyHdr c.xid ++ ([0, 0, 0, 0] ++ u32be port)) ip port = true := by
  unfold Spec.rpcReplyOk
  rw [parseReply_built _ hx 0 _ (by simp [u32be])]
  simp [h2, h3, hp, be32b_eq]

theorem ok_getaddr (c : Spec.RpcCall) (ip : Ip) (port : Nat) (hx : c.xid < 4294967296)
    (hport : port < 65536)
    (hp : c.prog = 100000) (h3 : c.proc = 3) (hv : c.vers = 3 ∨ c.vers = 4) :
    Spec.rpcReplyOk c (replyHdr c.xid ++ ([0, 0, 0, 0] ++ xdrString (uaddr ip port))) ip port = true := by
  unfold Spec.rpcReplyOk
  have hl := uaddr_len ip port hport
  rw [parseReply_built _ hx 0 _ (by rw [xdrString_length]; omega)]
  have hx := xdrOpaque_xdrString (uaddr ip port) [] (by omega)
  rw [List.append_nil, uaddr_eq] at hx
  have hv2 : ¬(c.vers < 2 ∨ c.vers > 4) := by omega
  have hv3 : ¬c.vers = 2 := by omega
  simp [h3, hp, hv2, hv3, hx, uaddr_eq]

/-! ### DUMP -/

def pmEntry (port v : Nat) : Bytes := [0, 0, 0, 1] ++ u32be 100000 ++ u32be v ++ u32be 6 ++ u32be port

def rpcbEntry (netid ua owner : Bytes) (v : Nat) : Bytes :=
  [0, 0, 0, 1] ++ u32be 100000 ++ u32be v ++ xdrString netid ++ xdrString ua ++ xdrString owner

def netidOf (ip : Ip) : Bytes := if ip.isV4 then "tcp".toUTF8.toList else "tcp6".toUTF8.toList

theorem portmap_dump2 (s : RpcSt) (ip : Ip) (port : Nat) (h4 : s.procedure = 4) (h2 : s.progVersion = 2) :
    rpcPortmap s ip port =
      .ok ([0, 0, 0, 0] ++ (pmEntry port 2 ++ (pmEntry port 3 ++ (pmEntry port 4 ++ [0, 0, 0, 0])))) := by
  unfold rpcPortmap
  simp [h4, h2, pmEntry]

theorem portmap_dump34 (s : RpcSt) (ip : Ip) (port : Nat) (h4 : s.procedure = 4)
    (hv : s.progVersion = 3 ∨ s.progVersion = 4) :
    rpcPortmap s ip port =
      .ok ([0, 0, 0, 0] ++ (rpcbEntry (netidOf ip) (uaddr ip port) Gen.rpcOwner 2 ++
        (rpcbEntry (netidOf ip) (uaddr ip port) Gen.rpcOwner 3 ++
        (rpcbEntry (netidOf ip) (uaddr ip port) Gen.rpcOwner 4 ++ [0, 0, 0, 0])))) := by
  unfold rpcPortmap
  have h2 : ¬s.progVersion = 2 := by omega
  simp [h4, h2, hv, rpcbEntry, netidOf]

theorem ok_dump2 (c : Spec.RpcCall) (ip : Ip) (port : Nat) (hx : c.xid < 4294967296) (hport : port < 65536)
    (hp : c.prog = 100000) (h4 : c.proc = 4) (h2 : c.vers = 2) :
    Spec.rpcReplyOk c (replyHdr c.xid ++
      ([0, 0, 0, 0] ++ (pmEntry port 2 ++ (pmEntry port 3 ++ (pmEntry port 4 ++ [0, 0, 0, 0]))))) ip port = true := by
  unfold Spec.rpcReplyOk
  rw [parseReply_built _ hx 0 _ (by simp [pmEntry, u32be])]
  have hr : Spec.readPmapList 64 (pmEntry port 2 ++ (pmEntry port 3 ++ (pmEntry port 4 ++ [0, 0, 0, 0]))) =
      some [(100000, 2, 6, port), (100000, 3, 6, port), (100000, 4, 6, port)] := by
    unfold pmEntry
    rw [readPmap_entry 63 _ _ _ _ _ (by omega) (by omega) (by omega) (by omega)]
    rw [readPmap_entry 62 _ _ _ _ _ (by omega) (by omega) (by omega) (by omega)]
    rw [readPmap_entry 61 _ _ _ _ _ (by omega) (by omega) (by omega) (by omega)]
    rw [readPmap_end]
  simp [h2, h4, hp, hr]

theorem netid_ok (ip : Ip) :
    (if ip.isV4 then (netidOf ip = "tcp".toUTF8.toList || netidOf ip = "udp".toUTF8.toList)
     else (netidOf ip = "tcp6".toUTF8.toList || netidOf ip = "udp6".toUTF8.toList)) = true := by
  cases ip <;> simp [netidOf, Ip.isV4]

theorem ok_dump34 (c : Spec.RpcCall) (ip : Ip) (port : Nat) (hx : c.xid < 4294967296) (hport : port < 65536)
    (hp : c.prog = 100000) (h4 : c.proc = 4) (hv : c.vers = 3 ∨ c.vers = 4) :
    Spec.rpcReplyOk c (replyHdr c.xid ++
      ([0, 0, 0, 0] ++ (rpcbEntry (netidOf ip) (uaddr ip port) Gen.rpcOwner 2 ++
        (rpcbEntry (netidOf ip) (uaddr ip port) Gen.rpcOwner 3 ++
        (rpcbEntry (netidOf ip) (uaddr ip port) Gen.rpcOwner 4 ++ [0, 0, 0, 0]))))) ip port = true := by
  have hu := uaddr_len ip port hport
  have hn : (netidOf ip).length < 4294967296 := by
    have : "tcp".toUTF8.toList.length = 3 := by decide +kernel
    have : "tcp6".toUTF8.toList.length = 4 := by decide +kernel
    unfold netidOf; split <;> omega
  have hnid := netid_ok ip
  have ho : Gen.rpcOwner.length < 4294967296 := by
    have := Texts.rpcOwner_le
    omega
  generalize Gen.rpcOwner = owner at *
  generalize netidOf ip = netid at *
  rw [uaddr_eq] at *
  generalize hua : Spec.uaddrOf ip port = ua at *
  unfold Spec.rpcReplyOk
  rw [hua]
  rw [parseReply_built _ hx 0 _ (by
    simp only [rpcbEntry, List.length_append, xdrString_length, u32be_length, List.length_cons, List.length_nil]
    omega)]
  have hr : Spec.readRpcbList 64 (rpcbEntry netid ua owner 2 ++ (rpcbEntry netid ua owner 3 ++
        (rpcbEntry netid ua owner 4 ++ [0, 0, 0, 0]))) =
      some [(100000, 2, netid, ua, owner), (100000, 3, netid, ua, owner), (100000, 4, netid, ua, owner)] := by
    unfold rpcbEntry
    rw [readRpcb_entry 63 _ _ _ _ _ _ (by omega) (by omega) hn (by omega) ho]
    rw [readRpcb_entry 62 _ _ _ _ _ _ (by omega) (by omega) hn (by omega) ho]
    rw [readRpcb_entry 61 _ _ _ _ _ _ (by omega) (by omega) hn (by omega) ho]
    rw [readRpcb_end]
  have hv2 : ¬(c.vers < 2 ∨ c.vers > 4) := by omega
  have hv3 : ¬c.vers = 2 := by omega
  rw [if_pos (by rfl)]
  simp only [hv2, h4, hp, hv3, hr]
  simpa using hnid

theorem replyHdr_length (x : Nat) : (replyHdr x).length = 20 := rfl

theorem pmEntry_length (port v : Nat) : (pmEntry port v).length = 20 := rfl

theorem rpcbEntry_length (n u o : Bytes) (v : Nat) :
    (rpcbEntry n u o v).length =
      12 + ((n.length + 3) / 4 * 4 + 4) + ((u.length + 3) / 4 * 4 + 4) + ((o.length + 3) / 4 * 4 + 4) := by
  simp only [rpcbEntry, List.length_append, xdrString_length, u32be_length, List.length_cons, List.length_nil]

/-- the reply built from a parsed call is the prescribed one, and is short -/
theorem build_spec (s : RpcSt) (ci : ClientInfo) (ip : Ip) (port : Nat) (c : Spec.RpcCall)
    (hip : ci.ipDst = some ip) (hport : ci.portDst = some port) (hp : port < 65536)
    (hx : s.xid < 4294967296)
    (hcx : c.xid = s.xid) (hcp : c.prog = s.program) (hcv : c.vers = s.progVersion) (hcq : c.proc = s.procedure) :
    ∃ r, rpcBuild s ci = .ok r ∧ Spec.rpcReplyOk c r ip port = true ∧ r.length < 2147483648 := by
  by_cases hv : s.progVersion < 2 ∨ s.progVersion > 4
  · refine ⟨_, build_mismatch s ci hv, ?_, by simp [replyHdr_length]⟩
    rw [← hcx]; exact ok_mismatch c ip port (by omega) (by omega)
  by_cases h0 : s.procedure = 0
  · refine ⟨_, build_null s ci hv h0, ?_, by simp [replyHdr_length]⟩
    rw [← hcx]; exact ok_null c ip port (by omega) (by omega) (by omega)
  by_cases hpr : s.program = 100000
  · rw [build_portmap s ci ip port hip hport hv h0 hpr]
    by_cases h3 : s.procedure = 3
    · by_cases h2 : s.progVersion = 2
      · have : rpcPortmap s ip port = .ok ([0, 0, 0, 0] ++ u32be port) := by
          unfold rpcPortmap; simp [h3, h2]
        rw [this]
        refine ⟨_, rfl, ?_, by simp [replyHdr_length, u32be_length]⟩
        rw [← hcx]; exact ok_getport c ip port (by omega) (by omega) (by omega) (by omega)
      · have h34 : s.progVersion = 3 ∨ s.progVersion = 4 := by omega
        have : rpcPortmap s ip port = .ok ([0, 0, 0, 0] ++ xdrString (uaddr ip port)) := by
          unfold rpcPortmap; simp [h3, h2, h34]
        rw [this]
        have hl := uaddr_len ip port hp
        refine ⟨_, rfl, ?_, by simp only [List.length_append, replyHdr_length, xdrString_length, List.length_cons, List.length_nil]; omega⟩
        rw [← hcx]; exact ok_getaddr c ip port (by omega) hp (by omega) (by omega) (by omega)
    by_cases h4 : s.procedure = 4
    · by_cases h2 : s.progVersion = 2
      · rw [portmap_dump2 s ip port h4 h2]
        refine ⟨_, rfl, ?_, by simp [replyHdr_length, pmEntry_length]⟩
        rw [← hcx]; exact ok_dump2 c ip port (by omega) hp (by omega) (by omega) (by omega)
      · have h34 : s.progVersion = 3 ∨ s.progVersion = 4 := by omega
        rw [portmap_dump34 s ip port h4 h34]
        have hl := uaddr_len ip port hp
        have hn : (netidOf ip).length ≤ 4 := by
          have : "tcp".toUTF8.toList.length = 3 := by decide +kernel
          have : "tcp6".toUTF8.toList.length = 4 := by decide +kernel
          unfold netidOf; split <;> omega
        have ho := Texts.rpcOwner_le
        refine ⟨_, rfl, ?_, by
          simp only [List.length_append, replyHdr_length, rpcbEntry_length, List.length_cons, List.length_nil]
          omega⟩
        rw [← hcx]; exact ok_dump34 c ip port (by omega) hp (by omega) (by omega) (by omega)
    · have : rpcPortmap s ip port = .ok ([0, 0, 0, 3] ++ []) := by
        unfold rpcPortmap; simp [h3, h4]
      rw [this]
      refine ⟨_, rfl, ?_, by simp [replyHdr_length]⟩
      rw [← hcx]; exact ok_procUnavail c ip port (by omega) (by omega) (by omega) (by omega) (by omega) (by omega)
  · refine ⟨_, build_other s ci hv h0 hpr, ?_, by simp [replyHdr_length]⟩
    rw [← hcx]; exact ok_other c ip port (by omega) (by omega) (by omega) (by omega)

end Masscanned.C16
