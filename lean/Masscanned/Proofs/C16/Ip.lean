/-
  Proofs/C16/Ip — the model's text rendering of addresses (`showV4`, `showV6`: Rust's Display) equals
  the spec's independent RFC 5952 formatter (`Spec.ipv4Text`, `Spec.ipv6Text`), for every input.
-/
import Masscanned.Model.Rpc
import Masscanned.Spec.Rpc
namespace Masscanned.C16
open Masscanned

theorem showV4_eq (a : Bytes) : showV4 a = Spec.ipv4Text a := rfl

/-! ### the spec's formatter, with its local definitions named -/

def specRuns (S : List Nat) : List (Nat × Nat) :=
  (List.range 8).filterMap (fun i =>
    if S.getD i 1 = 0 ∧ (i = 0 ∨ S.getD (i - 1) 0 ≠ 0) then
      some (i, ((S.drop i).takeWhile (· = 0)).length) else none)

def specBest (S : List Nat) : Nat × Nat :=
  (specRuns S).foldl (fun (b : Nat × Nat) r => if r.2 > b.2 then r else b) (0, 0)

def specJoin (l : List Nat) : Bytes := ((l.map Spec.hexS).intersperse [58]).flatten

theorem segs_eq (a : Bytes) : v6Segments a = (List.range 8).map (fun i => Spec.be16 a (2 * i)) := rfl

theorem ipv6Text_unfold (a : Bytes) :
    Spec.ipv6Text a =
      if (v6Segments a).take 6 = [0, 0, 0, 0, 0, 65535] then "::ffff:".toUTF8.toList ++ Spec.ipv4Text (a.drop 12)
      else if (specBest (v6Segments a)).2 ≥ 2 then
        specJoin ((v6Segments a).take (specBest (v6Segments a)).1) ++ [58, 58] ++
          specJoin ((v6Segments a).drop ((specBest (v6Segments a)).1 + (specBest (v6Segments a)).2))
      else specJoin (v6Segments a) := rfl

theorem showV6_unfold (a : Bytes) :
    showV6 a =
      if (v6Segments a).take 5 = [0, 0, 0, 0, 0] ∧ (v6Segments a).getD 5 1 = 65535 then
        "::ffff:".toUTF8.toList ++ showV4 (a.drop 12)
      else if (longestZeroRun (v6Segments a)).2 > 1 then
        joinColon ((v6Segments a).take (longestZeroRun (v6Segments a)).1) ++ [58, 58] ++
          joinColon ((v6Segments a).drop ((longestZeroRun (v6Segments a)).1 + (longestZeroRun (v6Segments a)).2))
      else joinColon (v6Segments a) := rfl

/-! ### joining -/

theorem foldl_join (t : List Nat) (acc : Bytes) :
    t.foldl (fun acc y => acc ++ [58] ++ hexNoPad y) acc = acc ++ (t.map (fun y => [58] ++ hexNoPad y)).flatten := by
  induction t generalizing acc with
  | nil => simp
  | cons y t ih => simp

theorem specJoin_cons (x : Nat) (t : List Nat) :
    specJoin (x :: t) = hexNoPad x ++ (t.map (fun y => [58] ++ hexNoPad y)).flatten := by
  induction t generalizing x with
  | nil => simp [specJoin, Spec.hexS, hexNoPad]
  | cons y t ih =>
    have := ih y
    simp only [specJoin, List.map_cons, List.intersperse_cons_cons, List.flatten_cons] at this ⊢
    rw [this]; simp [Spec.hexS, hexNoPad]

theorem joinColon_eq (l : List Nat) : joinColon l = specJoin l := by
  cases l with
  | nil => rfl
  | cons x t => rw [specJoin_cons, joinColon, foldl_join]

/-! ### the longest zero run only depends on which segments are zero -/

def nz (b : Bool) : Nat := if b then 0 else 1
def norm (x : Nat) : Nat := nz (decide (x = 0))

theorem norm_eq_zero (x : Nat) : (norm x = 0) ↔ (x = 0) := by
  unfold norm nz; by_cases h : x = 0 <;> simp [h]

def lzrStep (acc : (Nat × Nat) × (Nat × Nat)) (p : Nat × Nat) : (Nat × Nat) × (Nat × Nat) :=
  let (longest, current) := acc
  if p.1 = 0 then
    let cur : Nat × Nat := if current.2 = 0 then (p.2, 1) else (current.1, current.2 + 1)
    (if cur.2 > longest.2 then cur else longest, cur)
  else (longest, (0, 0))

theorem longestZeroRun_eq (S : List Nat) : longestZeroRun S = (S.zipIdx.foldl lzrStep ((0, 0), (0, 0))).1 := rfl

theorem lzr_norm_aux (l : List Nat) (k : Nat) (acc : (Nat × Nat) × (Nat × Nat)) :
    (l.zipIdx k).foldl lzrStep acc = ((l.map norm).zipIdx k).foldl lzrStep acc := by
  induction l generalizing k acc with
  | nil => rfl
  | cons x t ih =>
    simp only [List.zipIdx_cons, List.map_cons, List.foldl_cons]
    have : lzrStep acc (x, k) = lzrStep acc (norm x, k) := by
      unfold lzrStep; simp only [norm_eq_zero]
    rw [this, ih]

theorem lzr_norm (S : List Nat) : longestZeroRun S = longestZeroRun (S.map norm) := by
  rw [longestZeroRun_eq, longestZeroRun_eq, lzr_norm_aux]

theorem getD_norm (S : List Nat) (i : Nat) (d : Nat) : (S.map norm).getD i (norm d) = norm (S.getD i d) := by
  simp [List.getD_eq_getElem?_getD, List.getElem?_map]

theorem specRuns_norm (S : List Nat) : specRuns (S.map norm) = specRuns S := by
  unfold specRuns
  congr 1
  funext i
  have h1 : (S.map norm).getD i 1 = 0 ↔ S.getD i 1 = 0 := by
    have := getD_norm S i 1; rw [show norm 1 = 1 from rfl] at this; rw [this, norm_eq_zero]
  have h0 : (S.map norm).getD (i - 1) 0 = 0 ↔ S.getD (i - 1) 0 = 0 := by
    have := getD_norm S (i - 1) 0; rw [show norm 0 = 0 from rfl] at this; rw [this, norm_eq_zero]
  have h2 : (((S.map norm).drop i).takeWhile (· = 0)).length = ((S.drop i).takeWhile (· = 0)).length := by
    rw [← List.map_drop, List.takeWhile_map, List.length_map]
    congr 2
    funext x; simp [norm_eq_zero]
  simp only [h1, h2, ne_eq, h0]

theorem specBest_norm (S : List Nat) : specBest S = specBest (S.map norm) := by
  unfold specBest; rw [specRuns_norm]

/-- all 256 zero / non-zero patterns of 8 segments: the two run finders agree -/
theorem runs_agree_bits : ∀ b0 b1 b2 b3 b4 b5 b6 b7 : Bool,
    longestZeroRun [nz b0, nz b1, nz b2, nz b3, nz b4, nz b5, nz b6, nz b7] =
      specBest [nz b0, nz b1, nz b2, nz b3, nz b4, nz b5, nz b6, nz b7] := by
  decide +kernel

theorem len8 (S : List Nat) (h : S.length = 8) : ∃ a b c d e f g i, S = [a, b, c, d, e, f, g, i] := by
  match S, h with
  | [a, b, c, d, e, f, g, i], _ => exact ⟨a, b, c, d, e, f, g, i, rfl⟩

theorem runs_agree (S : List Nat) (h : S.length = 8) : longestZeroRun S = specBest S := by
  rw [lzr_norm, specBest_norm]
  obtain ⟨a, b, c, d, e, f, g, i, rfl⟩ := len8 S h
  exact runs_agree_bits _ _ _ _ _ _ _ _

theorem v6Segments_length (a : Bytes) : (v6Segments a).length = 8 := by simp [v6Segments]

theorem mapped_cond (S : List Nat) (h : S.length = 8) :
    (S.take 5 = [0, 0, 0, 0, 0] ∧ S.getD 5 1 = 65535) ↔ S.take 6 = [0, 0, 0, 0, 0, 65535] := by
  obtain ⟨a, b, c, d, e, f, g, i, rfl⟩ := len8 S h
  simp only [List.take_succ_cons, List.take_zero, List.cons.injEq, List.getD_cons_succ, List.getD_cons_zero, and_true]
  constructor
  · rintro ⟨⟨h0, h1, h2, h3, h4⟩, h5⟩; exact ⟨h0, h1, h2, h3, h4, h5⟩
  · rintro ⟨h0, h1, h2, h3, h4, h5⟩; exact ⟨⟨h0, h1, h2, h3, h4⟩, h5⟩

theorem showV6_eq (a : Bytes) : showV6 a = Spec.ipv6Text a := by
  rw [showV6_unfold, ipv6Text_unfold]
  have h8 := v6Segments_length a
  simp only [mapped_cond _ h8, runs_agree _ h8, joinColon_eq, showV4_eq]
  rfl

theorem showIp_eq (ip : Ip) : showIp ip = Spec.ipText ip := by
  cases ip with
  | v4 a => exact showV4_eq a
  | v6 a => exact showV6_eq a

theorem uaddr_eq (ip : Ip) (port : Nat) : uaddr ip port = Spec.uaddrOf ip port := by
  unfold uaddr Spec.uaddrOf; rw [showIp_eq]; rfl

/-! ### length bounds (the reply length fits the 31-bit record mark) -/

theorem loop_length (bs : ByteArray) (i : Nat) (r : List UInt8) :
    (ByteArray.toList.loop bs i r).length = r.length + (bs.size - i) := by
  fun_induction ByteArray.toList.loop bs i r with
  | case1 i r h ih => rw [ih]; simp; omega
  | case2 i r h => simp; omega

theorem toList_length (bs : ByteArray) : bs.toList.length = bs.size := by
  simp [ByteArray.toList, loop_length]

theorem utf8Encode_size (l : List Char) : l.utf8Encode.size ≤ 4 * l.length := by
  induction l with
  | nil => simp
  | cons c t ih =>
    rw [List.utf8Encode_cons, ByteArray.size_append, List.utf8Encode_singleton, List.size_toByteArray,
      String.length_utf8EncodeChar]
    have := c.utf8Size_le_four
    simp; omega

theorem ofList_len (l : List Char) : (String.ofList l).toUTF8.toList.length ≤ 4 * l.length := by
  rw [toList_length, String.toUTF8_eq_toByteArray, String.toByteArray_ofList]
  exact utf8Encode_size l

theorem hexNoPad_len (n : Nat) (h : n < 65536) : (hexNoPad n).length ≤ 16 := by
  have h1 := ofList_len (Nat.toDigits 16 n)
  have h2 : (Nat.toDigits 16 n).length ≤ 4 := (Nat.length_toDigits_le_iff (by omega) (by omega)).2 (by simpa using h)
  unfold hexNoPad; omega

theorem natDec_len (n : Nat) (h : n < 256) : (natDec n).length ≤ 12 := by
  have h1 := ofList_len (Nat.toDigits 10 n)
  have h2 : (Nat.toDigits 10 n).length ≤ 3 := (Nat.length_toDigits_le_iff (by omega) (by omega)).2 (by omega)
  unfold natDec; rw [Nat.toString_eq_ofList_toDigits]; omega

theorem at8_lt (a : Bytes) (i : Nat) : at8 a i < 256 := (a.getD i 0).toNat_lt

theorem showV4_len (a : Bytes) : (showV4 a).length ≤ 51 := by
  have := natDec_len _ (at8_lt a 0); have := natDec_len _ (at8_lt a 1)
  have := natDec_len _ (at8_lt a 2); have := natDec_len _ (at8_lt a 3)
  simp only [showV4, List.length_append, List.length_cons, List.length_nil]; omega

theorem flat_len (t : List Nat) (h : ∀ x ∈ t, x < 65536) :
    ((t.map (fun y => [58] ++ hexNoPad y)).flatten).length ≤ 17 * t.length := by
  induction t with
  | nil => simp
  | cons y t ih =>
    have := hexNoPad_len y (h y (by simp))
    have := ih (fun x hx => h x (by simp [hx]))
    simp only [List.map_cons, List.flatten_cons, List.length_append, List.length_cons, List.length_nil] at *
    omega

theorem joinColon_len (l : List Nat) (h : ∀ x ∈ l, x < 65536) : (joinColon l).length ≤ 17 * l.length := by
  cases l with
  | nil => simp [joinColon]
  | cons x t =>
    rw [joinColon_eq, specJoin_cons]
    have := hexNoPad_len x (h x (by simp))
    have := flat_len t (fun y hy => h y (by simp [hy]))
    simp only [List.length_append, List.length_cons]; omega

theorem v6Segments_lt (a : Bytes) : ∀ x ∈ v6Segments a, x < 65536 := by
  intro x hx
  simp only [v6Segments, List.mem_map] at hx
  obtain ⟨i, _, rfl⟩ := hx
  have := at8_lt a (2 * i); have := at8_lt a (2 * i + 1); omega

theorem showV6_len (a : Bytes) : (showV6 a).length ≤ 300 := by
  rw [showV6_unfold]
  have h8 := v6Segments_length a
  have hlt := v6Segments_lt a
  split
  · have := showV4_len (a.drop 12)
    have : "::ffff:".toUTF8.toList.length = 7 := by decide +kernel
    simp only [List.length_append]; omega
  · split
    · have h1 := joinColon_len ((v6Segments a).take (longestZeroRun (v6Segments a)).1)
        (fun x hx => hlt x (List.mem_of_mem_take hx))
      have h2 := joinColon_len ((v6Segments a).drop ((longestZeroRun (v6Segments a)).1 + (longestZeroRun (v6Segments a)).2))
        (fun x hx => hlt x (List.mem_of_mem_drop hx))
      simp only [List.length_append, List.length_take, List.length_drop, List.length_cons, List.length_nil] at *
      omega
    · have := joinColon_len _ hlt; omega

theorem showIp_len (ip : Ip) : (showIp ip).length ≤ 300 := by
  cases ip with
  | v4 a => have := showV4_len a; simp only [showIp]; omega
  | v6 a => exact showV6_len a

theorem uaddr_len (ip : Ip) (port : Nat) (hp : port < 65536) : (uaddr ip port).length ≤ 326 := by
  have := showIp_len ip
  have := natDec_len (port / 256) (by omega); have := natDec_len (port % 256) (by omega)
  simp only [uaddr, List.length_append, List.length_cons, List.length_nil]; omega

end Masscanned.C16
