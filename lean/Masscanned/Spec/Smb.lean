/-
  Spec/Smb — C17: SMB1 ([MS-CIFS]/[MS-SMB]) and SMB2 ([MS-SMB2]) Negotiate / Session-Setup
  requests inside a NetBIOS session message, and the consistency conditions of the responses.
  Little-endian readers; independent of Model/Smb.
-/
import Masscanned.Spec.Wire
namespace Masscanned.Spec
open Masscanned

def le16 (b : Bytes) (i : Nat) : Nat := u8 b i + 256 * u8 b (i + 1)
def le32 (b : Bytes) (i : Nat) : Nat := le16 b i + 65536 * le16 b (i + 2)

/-- NetBIOS session message: type 0, 17-bit length = bytes that follow -/
def nbtBody (p : Bytes) : Option Bytes :=
  if p.length < 4 ∨ u8 p 0 ≠ 0 then none else
  let len := (u8 p 1 % 2) * 65536 + be16 p 2
  if p.length - 4 = len then some (p.drop 4) else none

/-! ### SMB1 -/

/-- dialect strings of an SMB1 negotiate data block: (0x02 string NUL)* filling it exactly -/
def smb1DialectList : Nat → Bytes → Option (List Bytes)
  | 0, _ => none
  | fuel + 1, d =>
    match d with
    | [] => some []
    | 2 :: t =>
      let s := t.takeWhile (· ≠ 0)
      if t.length ≤ s.length then none          -- missing NUL
      else match smb1DialectList fuel (t.drop (s.length + 1)) with
        | some l => some (s :: l)
        | none => none
    | _ => none

inductive Smb1Req where
  | negotiate (dialects : List Bytes)
  | sessionSetup
  deriving Repr, DecidableEq

/-- a well-formed SMB1 request (not a response) of one of the two answered commands -/
def smb1Request (m : Bytes) : Option Smb1Req :=
  if m.length < 32 ∨ sub m 0 4 ≠ [0xff, 0x53, 0x4d, 0x42] then none else
  if u8 m 9 ≥ 128 then none else                       -- SMB_FLAGS_REPLY
  let cmd := u8 m 4
  let p := m.drop 32
  if cmd = 0x72 then
    if p.length < 3 ∨ u8 p 0 ≠ 0 then none else
    let bc := le16 p 1
    if p.length - 3 ≠ bc then none else
    match smb1DialectList (bc + 1) (p.drop 3) with
    | some ds => if ds.isEmpty then none else some (.negotiate ds)
    | none => none
  else if cmd = 0x73 then
    -- extended-security session setup: WordCount 12, 24 parameter bytes, ByteCount, security blob first
    if p.length < 27 ∨ u8 p 0 ≠ 12 then none else
    let secLen := le16 p 15
    let bc := le16 p 25
    if secLen ≥ 1 ∧ secLen ≤ bc ∧ p.length - 27 = bc then some .sessionSetup else none
  else none

/-- the SMB1 dialect strings the responder can select (it answers in the NT LM 0.12 format and
    announces SMB2 through the two SMB 2 strings) -/
def smb1Speaks (d : Bytes) : Bool :=
  d = "NT LM 0.12".toUTF8.toList || d = "SMB 2.???".toUTF8.toList || d = "SMB 2.002".toUTF8.toList

/-- total length of the DER TLV at the head of `b` (definite lengths: short form, or long form with one or two length octets);
    the security blobs of SMB are GSS-API / SPNEGO tokens, i.e. one DER TLV -/
def derSpan (b : Bytes) : Option Nat :=
  if b.length < 2 then none
  else if u8 b 1 < 128 then some (2 + u8 b 1)
  else if u8 b 1 = 129 then (if b.length < 3 then none else some (3 + u8 b 2))
  else if u8 b 1 = 130 then (if b.length < 4 then none else some (4 + (u8 b 2 * 256 + u8 b 3)))
  else none

/-- consistency of an SMB1 response `r` (NetBIOS framed) to request message `m` -/
def smb1ReplyOk (m : Bytes) (req : Smb1Req) (r : Bytes) : Bool :=
  match nbtBody r with
  | none => false
  | some a =>
    a.length ≥ 33 && sub a 0 4 = [0xff, 0x53, 0x4d, 0x42] &&
    u8 a 4 = u8 m 4 &&                                   -- command
    u8 a 9 ≥ 128 &&                                       -- reply flag
    sub a 12 2 = sub m 12 2 &&                            -- PIDHigh
    sub a 24 8 = sub m 24 8 &&                            -- TID, PIDLow, UID, MID
    (let p := a.drop 32
     let wc := u8 p 0
     let bcOff := 1 + 2 * wc
     p.length ≥ bcOff + 2 && le16 p bcOff = p.length - (bcOff + 2) &&     -- ByteCount = bytes that follow
     (match req with
      | .negotiate ds =>
        wc = 17 && le16 p 1 < ds.length &&                 -- DialectIndex points into the offered list
        (!ds.any smb1Speaks || smb1Speaks (ds.getD (le16 p 1) [])) &&   -- … at a dialect the responder speaks, if one was offered
        le16 p bcOff ≥ 16                                  -- GUID + security blob
      | .sessionSetup =>
        wc = 4 && le16 p 7 ≤ le16 p bcOff && le16 p 7 ≥ 1) &&   -- SecurityBlobLength ≤ ByteCount
     -- the announced blob length is the length of the token actually present (negotiate: behind the 16-byte GUID)
     (match req with
      | .negotiate _ => derSpan (p.drop (bcOff + 18)) = some (le16 p bcOff - 16)
      | .sessionSetup => derSpan (p.drop (bcOff + 2)) = some (le16 p 7)))

/-- SMB1 messages that must not be answered: reply flag set, or another command -/
def smb1MustIgnore (m : Bytes) : Bool :=
  m.length ≥ 32 && sub m 0 4 = [0xff, 0x53, 0x4d, 0x42] &&
  (u8 m 9 ≥ 128 || !(u8 m 4 = 0x72 || u8 m 4 = 0x73))

/-! ### SMB2 -/

def smb2Supported : List Nat := [0x0202, 0x0210, 0x02ff, 0x0300, 0x0302, 0x0310, 0x0311]

inductive Smb2Req where
  | negotiate (dialects : List Nat)
  | sessionSetup
  deriving Repr, DecidableEq

def le16List : Nat → Bytes → List Nat
  | 0, _ => []
  | n + 1, b => le16 b 0 :: le16List n (b.drop 2)

def smb2Request (m : Bytes) : Option Smb2Req :=
  if m.length < 64 ∨ sub m 0 4 ≠ [0xfe, 0x53, 0x4d, 0x42] then none else
  if le32 m 16 % 2 = 1 then none else                   -- SMB2_FLAGS_SERVER_TO_REDIR
  let cmd := le16 m 12
  let p := m.drop 64
  if cmd = 0 then
    if p.length < 36 then none else
    let n := le16 p 2
    if n = 0 ∨ p.length < 36 + 2 * n then none else some (.negotiate (le16List n (p.drop 36)))
  else if cmd = 1 then
    if p.length < 24 then none else
    let secLen := le16 p 14
    if secLen ≥ 1 ∧ p.length ≥ 24 + secLen then some .sessionSetup else none
  else none

def smb2ReplyOk (m : Bytes) (req : Smb2Req) (r : Bytes) : Bool :=
  match nbtBody r with
  | none => false
  | some a =>
    a.length ≥ 64 && sub a 0 4 = [0xfe, 0x53, 0x4d, 0x42] && le16 a 4 = 64 &&
    le16 a 12 = le16 m 12 &&                              -- command
    le32 a 16 % 2 = 1 &&                                  -- response flag
    sub a 24 24 = sub m 24 24 &&                          -- MessageId, AsyncId, SessionId
    (let p := a.drop 64
     match req with
     | .negotiate ds =>
       p.length ≥ 64 && le16 p 0 = 65 &&
       ds.contains (le16 p 4) && smb2Supported.contains (le16 p 4) &&    -- DialectRevision offered and supported
       le16 p 56 = 128 && le16 p 56 + le16 p 58 = a.length &&              -- SecurityBufferOffset/Length
       derSpan (p.drop 64) = some (le16 p 58)                              -- … is the length of the token actually present there
     | .sessionSetup =>
       p.length ≥ 8 && le16 p 0 = 9 &&
       le16 p 4 = 72 && le16 p 4 + le16 p 6 = a.length &&
       derSpan (p.drop 8) = some (le16 p 6))

def smb2MustIgnore (m : Bytes) : Bool :=
  m.length ≥ 64 && sub m 0 4 = [0xfe, 0x53, 0x4d, 0x42] &&
  (le32 m 16 % 2 = 1 || !(le16 m 12 = 0 || le16 m 12 = 1))

/-- SMB2 negotiate offering no supported dialect: no reply -/
def smb2NoCommonDialect (m : Bytes) : Bool :=
  match smb2Request m with
  | some (.negotiate ds) => !(ds.any smb2Supported.contains)
  | _ => false

end Masscanned.Spec
