/-
  Spec/JudgeApp — the application-layer Spec predicates packaged as judges of the
  implementation's observed behaviour at the `proto::repl` interface (payload in, reply out).
-/
import Masscanned.Spec.Judge
import Masscanned.Spec.Signatures
import Masscanned.Spec.Http
import Masscanned.Spec.Ssh
import Masscanned.Spec.Dns
import Masscanned.Spec.Stun
import Masscanned.Spec.Rpc
import Masscanned.Spec.Smb
namespace Masscanned.Spec
open Masscanned

/-- one observation at the application interface -/
structure AppObs where
  tcp : Bool
  src : Ip
  dst : Ip
  sport : Nat
  dport : Nat
  /-- payload of this call (datagram, or the first segment of a fresh TCP flow) -/
  payload : Bytes
  reply : Option Bytes
  /-- local port after the call (STUN may bump it) -/
  portAfter : Nat
  /-- continuation segment of a TCP flow already identified (sticky id): the responder of that protocol
      sees this segment alone -/
  forced : Option Nat := none

/-- protocol family of a reply, from its shape -/
inductive RClass where
  | http | stun | ssh | ghost | rpcTcp | rpcUdp | smb1 | smb2 | dns | unknown
  deriving DecidableEq, Repr

def classify (r : Bytes) : RClass :=
  if "HTTP/1.".toUTF8.toList.isPrefixOf r then .http
  else if "SSH-".toUTF8.toList.isPrefixOf r then .ssh
  else if "Gh0st".toUTF8.toList.isPrefixOf r then .ghost
  else if r.length ≥ 8 ∧ u8 r 0 = 0 ∧ sub r 4 4 = [0xff, 0x53, 0x4d, 0x42] then .smb1
  else if r.length ≥ 8 ∧ u8 r 0 = 0 ∧ sub r 4 4 = [0xfe, 0x53, 0x4d, 0x42] then .smb2
  else if r.length ≥ 20 ∧ u8 r 0 / 64 = 0 ∧ be16 r 2 = r.length - 20 ∧ (u8 r 0 % 2 = 1 ∨ u8 r 1 / 16 % 2 = 1) ∧ u8 r 1 % 16 = 1 then .stun
  else if r.length ≥ 28 ∧ u8 r 0 ≥ 128 ∧ be32 r 8 = 1 ∧ be32 r 12 = 0 ∧ be32 r 0 - 2147483648 = r.length - 4 then .rpcTcp
  else if r.length ≥ 24 ∧ be32 r 4 = 1 ∧ be32 r 8 = 0 ∧ be32 r 12 = 0 ∧ be32 r 16 = 0 then .rpcUdp
  else if r.length ≥ 12 ∧ u8 r 2 ≥ 128 then .dns
  else .unknown

/-- `classify` without the STUN shape -/
def classifyNoStun (r : Bytes) : RClass :=
  if "HTTP/1.".toUTF8.toList.isPrefixOf r then .http
  else if "SSH-".toUTF8.toList.isPrefixOf r then .ssh
  else if "Gh0st".toUTF8.toList.isPrefixOf r then .ghost
  else if r.length ≥ 8 ∧ u8 r 0 = 0 ∧ sub r 4 4 = [0xff, 0x53, 0x4d, 0x42] then .smb1
  else if r.length ≥ 8 ∧ u8 r 0 = 0 ∧ sub r 4 4 = [0xfe, 0x53, 0x4d, 0x42] then .smb2
  else if r.length ≥ 28 ∧ u8 r 0 ≥ 128 ∧ be32 r 8 = 1 ∧ be32 r 12 = 0 ∧ be32 r 0 - 2147483648 = r.length - 4 then .rpcTcp
  else if r.length ≥ 24 ∧ be32 r 4 = 1 ∧ be32 r 8 = 0 ∧ be32 r 12 = 0 ∧ be32 r 16 = 0 then .rpcUdp
  else if r.length ≥ 12 ∧ u8 r 2 ≥ 128 then .dns
  else .unknown

/-- protocol family of a reply `r` to the payload `p`: a reply of STUN shape is a STUN response only if it
    carries the payload's 128-bit transaction id (bytes 4..19) and its length field is below 2^15 — an ONC-RPC
    reply echoing an xid `01 01 …` has the STUN shape but not the transaction id; a DNS response with id `01 01`
    has the QR bit, i.e. the top bit of the would-be STUN length, set -/
def classifyFor (p r : Bytes) : RClass :=
  match classify r with
  | .stun => if u8 r 2 < 128 ∧ sub r 4 16 = sub p 4 16 then .stun else classifyNoStun r
  | c => c

def classId : RClass → Option Nat
  | .http => some ID_HTTP | .stun => some ID_STUN | .ssh => some ID_SSH | .ghost => some ID_GHOST
  | .rpcTcp => some ID_RPC_TCP | .rpcUdp => some ID_RPC_UDP | .smb1 => some ID_SMB1 | .smb2 => some ID_SMB2
  | _ => none

def refOf (o : AppObs) : Option Nat :=
  match o.forced with
  | some i => some i
  | none => if o.tcp then refStream o.payload else refDatagram o.payload

/-- verdict with a machine-readable hint that the failure sits in the known shadow set K2 -/
def failShadow (o : AppObs) (c : String) : Verdict :=
  if shadowed o.payload then failv ("[shadowed] " ++ c) else failv c

/-- C10 at the application interface: a reply produced by a signature-dispatched responder implies
    that its signature is the first one completed by the payload; no signature ⇒ only DNS (datagram) or nothing -/
def judgeC10 (o : AppObs) : Verdict :=
  let expected := refOf o
  match o.reply with
  | none => pass expected.isSome
  | some r =>
    let c := classifyFor o.payload r
    match classId c with
    | some i =>
      -- RPC replies: the framing tells which of the two RPC signatures was taken
      if expected = some i then pass true
      else failShadow o s!"answered by responder {i} but the first completed signature is {expected}"
    | none =>
      if c = .dns then
        (if expected.isNone ∧ !o.tcp then pass true else failShadow o "DNS fallback answered although a signature is completed")
      else failShadow o "reply of unknown shape"

def judgeC13 (o : AppObs) : Verdict :=
  let p := o.payload
  let isHttp : Bool := match o.reply with | some r => classify r = .http | none => false
  if strictRequest p then
    match o.reply with
    | some r => if reply401Ok r then pass true else failv "401 response malformed (status line / WWW-Authenticate / Content-Length vs body)"
    | none => failv "complete HTTP request not answered"
  else if !relaxedRequest p then
    (if isHttp then failv "HTTP response to an unknown method / malformed or unterminated request" else pass ((stripMethod p).isSome || p.length ≥ 4))
  else
    match o.reply with
    | some r => if isHttp ∧ !reply401Ok r then failv "401 response malformed" else pass true
    | none => pass false

/-- C13 on a later message of a TCP flow already identified as HTTP whose previous request was complete and
    answered: a complete request in the strict grammar must be answered with a well-formed 401 again, and a message
    that does not even start with one of the nine methods (in any letter case) must not get an HTTP response -/
def judgeC13s (o : AppObs) : Verdict :=
  let isHttp : Bool := match o.reply with | some r => classify r = .http | none => false
  if o.forced ≠ some ID_HTTP then pass false
  else if strictRequest o.payload then
    match o.reply with
    | some r => if reply401Ok r then pass true else failv "401 response malformed (later request of a connection)"
    | none => failv "complete HTTP request on an answered HTTP connection not answered"
  else if !nocaseMethodPrefix o.payload then
    (if isHttp then failv "HTTP response to a message that does not start with a method (later message of an answered connection)"
     else pass true)
  else pass false

/-- identification string without the dispatcher's version prefix: `SSH-` digits/dots `-` … CR LF -/
def sshIdent (p : Bytes) : Bool :=
  "SSH-".toUTF8.toList.isPrefixOf p &&
  (let (_, r) := spanP (fun b => digit b || b = DOT) (p.drop 4)
   match r with
   | 45 :: rest => hasCRLF rest
   | _ => false)

/-- an SSH banner is recognised as a complete identification string (`sshIdent`), not by its first four
    bytes: an ONC-RPC reply echoing the xid `SSH-` is not one -/
def judgeC18 (o : AppObs) : Verdict :=
  let p := o.payload
  if o.forced = some ID_SSH then
    -- later segment of a flow identified as SSH: the responder parses this segment from scratch
    (if sshAnswered p then
       (if o.reply = some sshBannerExpected then pass true else failv "SSH identification string on an SSH flow not answered with SSH-2.0-1")
     else if !sshIdent p then
       (match o.reply with
        | some r => if sshIdent r then failv "SSH banner sent for a malformed / unterminated identification string (later segment)" else pass true
        | none => pass true)
     else pass false)
  else if o.forced.isSome then pass false
  else if "Gh0st".toUTF8.toList.isPrefixOf p then
    match o.reply with
    | some r => if ghostFrameOk r then pass true else failv "Gh0st frame inconsistent (total length / inflated length)"
    | none => failv "Gh0st magic not answered"
  else if sshAnswered p then
    (if o.reply = some sshBannerExpected then pass true else failv "SSH identification string not answered with SSH-2.0-1")
  else
    match o.reply with
    | some r => if sshIdent r then failv "SSH banner sent for a malformed / unterminated identification string" else pass ("SSH-".toUTF8.toList.isPrefixOf p)
    | none => pass ("SSH-".toUTF8.toList.isPrefixOf p)

def judgeC14 (o : AppObs) : Verdict :=
  if o.tcp then pass false else
  let p := o.payload
  if (refDatagram p).isSome then pass false else
  match inAQuery p with
  | some q =>
    (match o.dst with
     | .v4 a =>
       (match o.reply with
        | some r => if dnsReplyOk q r a then pass true else failv "DNS response is not the faithful IN/A answer"
        | none => failv "IN/A query not answered")
     | .v6 _ => pass false)
  | none =>
    if hasNonInA p ∨ dnsTruncated p then
      (if o.reply.isNone then pass true else failv "DNS message with a non-IN/A question or truncated was answered")
    else pass false

def judgeC15 (o : AppObs) : Verdict :=
  let p := o.payload
  -- over TCP only the first segment of a flow that the published stream reference identifies as STUN (or a later
  -- segment of a flow already identified as STUN, `forced`) is a STUN exchange
  if o.tcp ∧ o.forced.isNone ∧ refStream p ≠ some ID_STUN then pass false else
  match parseStun p with
  | none => pass false
  | some m =>
    if m.cls = 0 ∧ m.method = 1 ∧ u8 p 0 = 0 ∧ u8 p 1 = 1 then
      if refOf o = some ID_STUN then
        (match o.reply with
         | some r =>
           if !stunSuccessOk m r o.src o.sport then failShadow o "STUN success response wrong (transaction id / length / MAPPED-ADDRESS)"
           else if o.portAfter ≠ (o.dport + changePortCount m) % 65536 then failv "STUN change-port rule violated"
           else pass true
         | none => failShadow o "STUN binding request not answered")
      else pass false
    else
      (match o.reply with
       | some r => if classifyFor p r = .stun then failv "STUN response to a message of another class/method" else pass true
       | none => pass true)

def judgeC16 (o : AppObs) : Verdict :=
  let p := o.payload
  let call := if o.tcp then p.drop 4 else p
  if (o.tcp ∧ p.length < 4) then pass false else
  match parseCall call with
  | none => pass false
  | some c =>
    if refOf o = some (if o.tcp then ID_RPC_TCP else ID_RPC_UDP) then
      (match o.reply with
       | none => failShadow o "ONC-RPC call not answered"
       | some r =>
         let body : Option Bytes := if o.tcp then recordMarkOk r else some r
         match body with
         | none => failShadow o "record mark wrong (last-fragment bit / length)"
         | some b => if rpcReplyOk c b o.dst o.dport then pass true else failShadow o "ONC-RPC reply differs from the prescribed one")
    else pass false

def judgeC17 (o : AppObs) : Verdict :=
  let p := o.payload
  match nbtBody p with
  | none => pass false
  | some m =>
    if refOf o = some ID_SMB1 then
      (match smb1Request m with
       | some req =>
         (match o.reply with
          | some r => if smb1ReplyOk m req r then pass true else failv "SMB1 response inconsistent"
          | none => failv "SMB1 request not answered")
       | none =>
         if smb1MustIgnore m then (if o.reply.isNone then pass true else failv "SMB1 response flag / other command answered")
         else pass false)
    else if refOf o = some ID_SMB2 then
      (match smb2Request m with
       | some req =>
         if smb2NoCommonDialect m then (if o.reply.isNone then pass true else failv "SMB2 negotiate without a supported dialect answered")
         else
           (match o.reply with
            | some r => if smb2ReplyOk m req r then pass true else failv "SMB2 response inconsistent"
            | none => failv "SMB2 request not answered")
       | none =>
         if smb2MustIgnore m then (if o.reply.isNone then pass true else failv "SMB2 response flag / other command answered")
         else pass false)
    else pass false

/-- the harmless end-of-datagram quirk of the two RPC signatures (their last symbol is a wildcard that also
    swallows the end pseudo-symbol): a datagram exactly one byte short is identified as RPC; the RPC
    responder never answers anything that short, so no property is affected -/
def rpcOneShortId (s : Bytes) : Option Nat :=
  if s.length = 23 ∧ prefixMatch (rpcCall.take 23) s then some ID_RPC_UDP
  else if s.length = 27 ∧ prefixMatch ((anyN 4 ++ rpcCall).take 27) s then some ID_RPC_TCP
  else none

/-- C10 at the matcher interface: the id returned by one real `search_next` (+ end) call -/
def judgeC10m (datagram : Bool) (s : Bytes) (id : Option Nat) : Verdict :=
  let expected := if datagram then refDatagram s else refStream s
  if id = expected then pass expected.isSome
  else if datagram ∧ expected.isNone ∧ id.isSome ∧ id = rpcOneShortId s then pass true
  else if shadowed s then failv s!"[shadowed] matcher says {id}, published signatures say {expected}"
  else failv s!"matcher says {id}, published signatures say {expected}"

end Masscanned.Spec
