/-
  Spec/Icmp — vocabulary of the ICMP half of property C05: echo request/reply for ICMPv4
  (RFC 792) and ICMPv6 (RFC 4443 §4.1/4.2), Neighbour Solicitation / Advertisement
  (RFC 4861 §4.3/4.4, Target Link-Layer Address option §4.6.1), and "every other ICMP message".
  Written from the RFC layouts with the readers of Spec/Wire; independent of Model/.

      ICMP / ICMPv6 header      0: type   1: code   2-3: checksum   4..: message body
      echo (both versions)      4-5: identifier   6-7: sequence number   8..: data
      NS (type 135)             4-7: reserved   8-23: target address   24..: options
      NA (type 136)             4: R|S|O|reserved(5)   5-7: reserved   8-23: target   24..: options
      TLLA option               0: type = 2   1: length = 1 (unit: 8 bytes)   2-7: link-layer address
-/
import Masscanned.Spec.L4
namespace Masscanned.Spec
open Masscanned

/-! ### ICMPv4 echo (RFC 792) -/

/-- a deliverable ICMPv4 Echo Request (type 8) with code 0 -/
def echo4Request (cfg : Cfg) (f : Bytes) : Bool :=
  deliverable cfg f false 1 4 && u8 (l4Bytes f) 0 = 8 && u8 (l4Bytes f) 1 = 0

/-- `r` is an Ethernet/IPv4 frame (version 4, IHL 5, protocol 1) carrying an Echo Reply (type 0,
    code 0) whose identifier, sequence number and data are exactly those of the request `f`.
    The reply's ICMP message is delimited as a receiver would (`l4Bytes r`), and nothing of the
    frame may lie beyond it. -/
def echo4ReplyOk (f r : Bytes) : Bool :=
  r.length ≥ 38 && be16 r 12 = 0x0800 && u8 r 14 = 0x45 && u8 r 23 = 1 &&
  (let m := l4Bytes r
   m.length ≥ 4 && m.length = r.length - 34 &&
   u8 m 0 = 0 && u8 m 1 = 0 && m.drop 4 = (l4Bytes f).drop 4)

/-- a deliverable ICMPv4 message that is not a code-0 Echo Request -/
def icmp4Other (cfg : Cfg) (f : Bytes) : Bool :=
  deliverable cfg f false 1 4 && !(u8 (l4Bytes f) 0 = 8 && u8 (l4Bytes f) 1 = 0)

/-! ### ICMPv6 echo (RFC 4443) -/

/-- destination address of an IPv6 frame -/
def dst6 (f : Bytes) : Ip := .v6 (sub f 38 16)

/-- a deliverable ICMPv6 Echo Request (type 128) with code 0 sent to a handled address
    (ICMPv6 is exempt from the L3 destination filter: the filter is part of the predicate) -/
def echo6Request (cfg : Cfg) (f : Bytes) : Bool :=
  deliverable cfg f true 58 4 && u8 (l4Bytes f) 0 = 128 && u8 (l4Bytes f) 1 = 0 &&
  handled cfg (dst6 f)

/-- `r` is an Ethernet/IPv6 frame (version 6, next header 58) carrying an Echo Reply (type 129,
    code 0) with the request's identifier, sequence number and data, nothing more, nothing less -/
def echo6ReplyOk (f r : Bytes) : Bool :=
  r.length ≥ 58 && be16 r 12 = 0x86dd && u8 r 14 / 16 = 6 && u8 r 20 = 58 &&
  (let m := l4Bytes r
   m.length ≥ 4 && m.length = r.length - 54 &&
   u8 m 0 = 129 && u8 m 1 = 0 && m.drop 4 = (l4Bytes f).drop 4)

/-! ### Neighbour Discovery (RFC 4861) -/

/-- the target address of a Neighbour Solicitation / Advertisement message `m` -/
def ndTarget (m : Bytes) : Bytes := sub m 8 16

/-- a deliverable code-0 Neighbour Solicitation (type 135, at least the 24 fixed bytes) whose
    target address is handled -/
def nsRequest (cfg : Cfg) (f : Bytes) : Bool :=
  deliverable cfg f true 58 24 && u8 (l4Bytes f) 0 = 135 && u8 (l4Bytes f) 1 = 0 &&
  handled cfg (.v6 (ndTarget (l4Bytes f)))

/-- `r` is an Ethernet/IPv6/ICMPv6 frame carrying a Neighbour Advertisement (type 136, code 0) of
    exactly 32 bytes: flags byte 0x60 (Router clear, Solicited and Override set, 5 reserved bits 0),
    reserved bytes 0, target = the solicited target, then exactly one option: Target Link-Layer
    Address (type 2, length 1) holding the configured MAC.  The IPv6 source is the target. -/
def naReplyOk (cfg : Cfg) (f r : Bytes) : Bool :=
  r.length ≥ 86 && be16 r 12 = 0x86dd && u8 r 14 / 16 = 6 && u8 r 20 = 58 &&
  (let m := l4Bytes r
   let t := ndTarget (l4Bytes f)
   m.length = 32 && m.length = r.length - 54 &&
   u8 m 0 = 136 && u8 m 1 = 0 &&
   u8 m 4 = 0x60 && u8 m 5 = 0 && u8 m 6 = 0 && u8 m 7 = 0 &&
   ndTarget m = t &&
   u8 m 24 = 2 && u8 m 25 = 1 && sub m 26 6 = cfg.mac &&
   sub r 22 16 = t)

/-- a deliverable ICMPv6 message that is neither a code-0 Echo Request nor a code-0 Neighbour
    Solicitation -/
def icmp6Other (cfg : Cfg) (f : Bytes) : Bool :=
  deliverable cfg f true 58 4 &&
  !(u8 (l4Bytes f) 1 = 0 && (u8 (l4Bytes f) 0 = 128 || u8 (l4Bytes f) 0 = 135))

end Masscanned.Spec
