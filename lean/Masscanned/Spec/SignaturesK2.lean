/-
  Spec/SignaturesK2 — C10, description of KNOWN FINDING K2 (see known_findings.json).

  The compiled protocol matcher does not implement `Spec.sigs` exactly: a literal edge of one
  signature shadows a wildcard position of another one.  This file pins what the matcher is
  KNOWN to implement instead: the same signature list, except that three wildcard positions
  are "any byte except …" (exactly the 20 triples of `Spec.shadowed`), and the end-of-datagram
  quirk: a signature that is not end-anchored and whose last symbol is a wildcard (the two
  ONC-RPC ones) is also reported at the end of a datagram that is exactly one byte short.
  Thm/C10 proves that the compiled matcher equals this reference on ALL inputs, and that this
  reference differs from `Spec.refStream`/`Spec.refDatagram` only on `Spec.shadowed` inputs
  (resp. on the one-byte-short RPC datagrams).
-/
import Masscanned.Spec.Signatures
namespace Masscanned.Spec
open Masscanned

inductive SymX where
  | lit (b : UInt8)
  | any
  | anyExcept (l : List UInt8)
  deriving DecidableEq, Repr

structure SigX where
  id : Nat
  pat : List SymX
  endAnchored : Bool
  deriving DecidableEq, Repr

def SymX.ofSym : Sym → SymX
  | .lit b => .lit b
  | .any => .any

/-- the pattern the matcher really implements for signature `g` (finding K2) -/
def shadowPat (g : Sig) : List SymX :=
  let p := g.pat.map SymX.ofSym
  if g.pat = patStunMagic then p.set 2 (.anyExcept [0])
  else if g.id = ID_RPC_TCP then (p.set 0 (.anyExcept nineBytes)).set 4 (.anyExcept [0])
  else if g.id = ID_RPC_UDP then p.set 0 (.anyExcept nineBytes)
  else p

def sigsK2 : List SigX :=
  sigs.map fun g => { id := g.id, pat := shadowPat g, endAnchored := g.endAnchored }

def symMatchX : SymX → UInt8 → Bool
  | .any, _ => true
  | .lit c, b => c = b
  | .anyExcept l, b => !l.contains b

/-- `pat` matches a prefix of `s` (of length `pat.length`) -/
def prefixMatchX : List SymX → Bytes → Bool
  | [], _ => true
  | _ :: _, [] => false
  | p :: ps, b :: bs => symMatchX p b && prefixMatchX ps bs

def completedAtK2 (s : Bytes) (n : Nat) : Option Nat :=
  (sigsK2.find? (fun g => !g.endAnchored && g.pat.length = n && n ≤ s.length && prefixMatchX g.pat s)).map (·.id)

/-- what the compiled matcher identifies on a byte stream -/
def refStreamK2 (s : Bytes) : Option Nat :=
  (List.range (s.length + 1)).findSome? (completedAtK2 s)

/-- the end-of-datagram quirk: `g` is not end-anchored, ends in a wildcard, and `s` is exactly
    `g.pat` minus that last symbol -/
def oneShortOf (g : SigX) (s : Bytes) : Bool :=
  !g.endAnchored && g.pat.getLast? = some .any && g.pat.length = s.length + 1 && prefixMatchX g.pat.dropLast s

/-- what the compiled matcher reports at the end of a datagram: the end-anchored forms, and the quirk -/
def refEndK2 (s : Bytes) : Option Nat :=
  (sigsK2.find? (fun g =>
    (g.endAnchored && g.pat.length = s.length && prefixMatchX g.pat s) || oneShortOf g s)).map (·.id)

def refDatagramK2 (s : Bytes) : Option Nat :=
  match refStreamK2 s with
  | some i => some i
  | none => refEndK2 s

/-- a datagram one byte short of an ONC-RPC signature (23 bytes: UDP form, 27 bytes: TCP form) -/
def rpcOneShort (s : Bytes) : Bool := sigsK2.any (oneShortOf · s)

end Masscanned.Spec
