/-
  Spec/Rpc — C16: ONC-RPC (RFC 5531) call reader, independent XDR reply reader, and the reply the
  property prescribes (precedence: version, NULL procedure, portmapper procedures, PROC_UNAVAIL,
  PROG_UNAVAIL).
-/
import Masscanned.Spec.Wire
import Masscanned.Spec.Http
namespace Masscanned.Spec
open Masscanned

structure RpcCall where
  xid : Nat
  rpcvers : Nat
  prog : Nat
  vers : Nat
  proc : Nat
  deriving Repr, DecidableEq

/-- a complete call message: header, credentials and verifier as XDR opaque (padded), then arguments -/
def parseCall (p : Bytes) : Option RpcCall :=
  if p.length < 40 then none else
  if be32 p 4 ≠ 0 then none else                      -- message type CALL
  let credLen := be32 p 28
  let credPad := (credLen + 3) / 4 * 4
  if p.length < 32 + credPad + 8 then none else
  let verfLen := be32 p (32 + credPad + 4)
  let verfPad := (verfLen + 3) / 4 * 4
  if p.length < 32 + credPad + 8 + verfPad then none else
  some { xid := be32 p 0, rpcvers := be32 p 8, prog := be32 p 12, vers := be32 p 16, proc := be32 p 20 }

/-- the part of a call the responder needs before it answers: everything up to the verifier length
    (the responder answers as soon as the verifier header is complete) -/
def callHeaderComplete (p : Bytes) : Bool :=
  p.length ≥ 40 && be32 p 4 = 0 &&
  (let credLen := be32 p 28
   p.length ≥ 32 + credLen + 8)

/-- XDR opaque / string: 4-byte length, bytes, zero padding to a multiple of 4 -/
def xdrOpaque (p : Bytes) : Option (Bytes × Bytes) :=
  if p.length < 4 then none else
  let n := be32 p 0
  let pad := (n + 3) / 4 * 4
  if p.length < 4 + pad then none else
  if ((p.drop (4 + n)).take (pad - n)).all (· = 0) then some ((p.drop 4).take n, p.drop (4 + pad)) else none

inductive RpcBody where
  | success (results : Bytes)
  | progUnavail
  | progMismatch (low high : Nat)
  | procUnavail
  | other (stat : Nat)
  deriving Repr, DecidableEq

structure RpcReply where
  xid : Nat
  body : RpcBody
  deriving Repr, DecidableEq

/-- accepted reply with a null verifier; consumes the message exactly (4-byte aligned) -/
def parseReply (r : Bytes) : Option RpcReply :=
  if r.length < 24 ∨ r.length % 4 ≠ 0 then none else
  if be32 r 4 ≠ 1 ∨ be32 r 8 ≠ 0 then none else         -- REPLY, MSG_ACCEPTED
  if be32 r 12 ≠ 0 ∨ be32 r 16 ≠ 0 then none else        -- verifier AUTH_NONE, length 0
  let stat := be32 r 20
  let rest := r.drop 24
  if stat = 0 then some { xid := be32 r 0, body := .success rest }
  else if stat = 2 then (if rest.length = 8 then some { xid := be32 r 0, body := .progMismatch (be32 rest 0) (be32 rest 4) } else none)
  else if rest.isEmpty then
    some { xid := be32 r 0, body := if stat = 1 then .progUnavail else if stat = 3 then .procUnavail else .other stat }
  else none

def decB (n : Nat) : Bytes := (toString n).toUTF8.toList

def hexS (n : Nat) : Bytes := (String.ofList (Nat.toDigits 16 n)).toUTF8.toList

def ipv4Text (a : Bytes) : Bytes :=
  decB (u8 a 0) ++ [46] ++ decB (u8 a 1) ++ [46] ++ decB (u8 a 2) ++ [46] ++ decB (u8 a 3)

/-- RFC 5952 text of an IPv6 address (longest zero run, leftmost on ties, runs of one not compressed;
    IPv4-mapped addresses in mixed notation), as printed by Rust's `Ipv6Addr` Display -/
def ipv6Text (a : Bytes) : Bytes :=
  let segs := (List.range 8).map (fun i => be16 a (2 * i))
  if segs.take 6 = [0, 0, 0, 0, 0, 65535] then "::ffff:".toUTF8.toList ++ ipv4Text (a.drop 12) else
  -- all (start, len) zero runs
  let runs := (List.range 8).filterMap (fun i =>
    if segs.getD i 1 = 0 ∧ (i = 0 ∨ segs.getD (i - 1) 0 ≠ 0) then
      some (i, ((segs.drop i).takeWhile (· = 0)).length) else none)
  let best := runs.foldl (fun (b : Nat × Nat) r => if r.2 > b.2 then r else b) (0, 0)
  let join (l : List Nat) : Bytes := (l.map hexS).intersperse [58] |>.flatten
  if best.2 ≥ 2 then join (segs.take best.1) ++ [58, 58] ++ join (segs.drop (best.1 + best.2))
  else join segs

def ipText : Ip → Bytes
  | .v4 a => ipv4Text a
  | .v6 a => ipv6Text a

/-- universal address of RFC 5665: `<address>.<port high>.<port low>` -/
def uaddrOf (ip : Ip) (port : Nat) : Bytes := ipText ip ++ [46] ++ decB (port / 256) ++ [46] ++ decB (port % 256)

def be32b (n : Nat) : Bytes :=
  [UInt8.ofNat (n / 16777216 % 256), UInt8.ofNat (n / 65536 % 256), UInt8.ofNat (n / 256 % 256), UInt8.ofNat (n % 256)]

/-- read the rpcb list of a DUMP result: (prog, vers, netid, uaddr, owner)* for v3/v4 -/
def readRpcbList : Nat → Bytes → Option (List (Nat × Nat × Bytes × Bytes × Bytes))
  | 0, _ => none
  | fuel + 1, p =>
    if p.length < 4 then none else
    if be32 p 0 = 0 then (if p.length = 4 then some [] else none) else
    if be32 p 0 ≠ 1 ∨ p.length < 12 then none else
    match xdrOpaque (p.drop 12) with
    | none => none
    | some (netid, r1) =>
      match xdrOpaque r1 with
      | none => none
      | some (ua, r2) =>
        match xdrOpaque r2 with
        | none => none
        | some (owner, r3) =>
          match readRpcbList fuel r3 with
          | none => none
          | some l => some ((be32 p 4, be32 p 8, netid, ua, owner) :: l)

/-- read the pmap list of a v2 DUMP result: (prog, vers, proto, port)* -/
def readPmapList : Nat → Bytes → Option (List (Nat × Nat × Nat × Nat))
  | 0, _ => none
  | fuel + 1, p =>
    if p.length < 4 then none else
    if be32 p 0 = 0 then (if p.length = 4 then some [] else none) else
    if be32 p 0 ≠ 1 ∨ p.length < 20 then none else
    match readPmapList fuel (p.drop 20) with
    | none => none
    | some l => some ((be32 p 4, be32 p 8, be32 p 12, be32 p 16) :: l)

/-- the reply prescribed by C16 for a call contacted at (`ip`, `port`) -/
def rpcReplyOk (c : RpcCall) (r : Bytes) (ip : Ip) (port : Nat) : Bool :=
  match parseReply r with
  | none => false
  | some rep =>
    rep.xid = c.xid &&
    (if c.vers < 2 ∨ c.vers > 4 then rep.body = .progMismatch 2 4
     else if c.proc = 0 then rep.body = .success []
     else if c.prog = 100000 then
       (if c.proc = 3 then
          (if c.vers = 2 then rep.body = .success (be32b port)
           else match rep.body with
             | .success res => (match xdrOpaque res with
                | some (s, rest) => rest.isEmpty && s = uaddrOf ip port
                | none => false)
             | _ => false)
        else if c.proc = 4 then
          (match rep.body with
           | .success res =>
             if c.vers = 2 then
               (match readPmapList 64 res with
                | some l => !l.isEmpty && l.all (fun e => e.1 = 100000 && e.2.2.2 = port && (e.2.2.1 = 6 || e.2.2.1 = 17))
                | none => false)
             else
               (match readRpcbList 64 res with
                | some l => !l.isEmpty && l.all (fun e =>
                    e.1 = 100000 && e.2.2.2.1 = uaddrOf ip port &&
                    (let netid := e.2.2.1
                     if ip.isV4 then netid = "tcp".toUTF8.toList || netid = "udp".toUTF8.toList
                     else netid = "tcp6".toUTF8.toList || netid = "udp6".toUTF8.toList))
                | none => false)
           | _ => false)
        else rep.body = .procUnavail)
     else rep.body = .progUnavail)

/-- TCP record marking: last-fragment bit set, length = bytes that follow -/
def recordMarkOk (r : Bytes) : Option Bytes :=
  if r.length < 4 then none else
  if u8 r 0 ≥ 128 ∧ (be32 r 0 - 2147483648) = r.length - 4 then some (r.drop 4) else none

def inPortmapRange (prog : Nat) : Bool := 99840 ≤ prog && prog ≤ 100095

end Masscanned.Spec
