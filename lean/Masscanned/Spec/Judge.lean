/-
  Spec/Judge — the Spec predicates packaged as per-case judges of the IMPLEMENTATION's observed
  behaviour (frame in, reply out, table size).  `mdriver judge Cxx` runs these on the real
  code's outputs; the theorems in Thm/ state the same predicates about the model.
-/
import Masscanned.Spec.Wire
import Masscanned.Spec.L4
import Masscanned.Spec.Icmp
import Masscanned.Spec.Stun
import Masscanned.Model.SipHash
namespace Masscanned.Spec
open Masscanned

/-- verdict of one case: `ok`, whether the case exercised the property's non-trivial branch,
    and (on failure) the clause that failed -/
structure Verdict where
  ok : Bool
  nontrivial : Bool
  clause : String := ""

def pass (nt : Bool) : Verdict := { ok := true, nontrivial := nt }
def failv (c : String) : Verdict := { ok := false, nontrivial := true, clause := c }

/-- a flow: IP version is implied by the address lengths -/
structure Flow where
  src : Bytes
  dst : Bytes
  sport : Nat
  dport : Nat
  deriving DecidableEq, Repr

/-- judge state carried across the frames of one case (histories) -/
structure JState where
  /-- flows that have sent accepted data (reference connection model) -/
  validated : List Flow := []

def ipOf (b : Bytes) : Ip := if b.length = 4 then .v4 b else .v6 b

def flowCookie (cfg : Cfg) (fl : Flow) : Nat :=
  cookie cfg.k0 cfg.k1 (ipOf fl.src) (ipOf fl.dst) fl.sport fl.dport

/-- a frame that is delivered to the TCP layer: (flow, tcp bytes) -/
def tcpDelivered (cfg : Cfg) (f : Bytes) : Option (Flow × Bytes) :=
  let v6 := be16 f 12 = 0x86dd
  if deliverable cfg f v6 6 20 then
    match srcIp f, dstIp f with
    | some s, some d =>
      let t := l4Bytes f
      some ({ src := s.bytes, dst := d.bytes, sport := be16 t 0, dport := be16 t 2 }, t)
    | _, _ => none
  else none

/-- the TCP segment of a reply frame (replies have no IPv4 options) -/
def replyTcp (r : Bytes) : Option Bytes :=
  if be16 r 12 = 0x0800 ∧ u8 r 23 = 6 then some (r.drop 34)
  else if be16 r 12 = 0x86dd ∧ u8 r 20 = 6 then some (r.drop 54)
  else none

/-! ### per-property judges on one (frame, reply) observation -/

def judgeC02 (cfg : Cfg) (f : Bytes) (r : Option Bytes) : Verdict :=
  match r with
  | none => pass (mustBeSilent cfg f)
  | some r =>
    if mustBeSilent cfg f then failv "reply although the frame is outside scope"
    else if !replyInScope cfg r then failv "reply source / advertised address not in the self-IP list"
    else pass cfg.selfIps.isSome

/-- number of CHANGE-REQUEST attributes with the change-port flag in a STUN message (spec-side walk) -/
def stunChangePorts : Nat → Bytes → Nat
  | 0, _ => 0
  | fuel + 1, a =>
    if a.length ≤ 4 then 0 else
    let ty := be16 a 0
    let len := be16 a 2
    (if ty = 3 ∧ len ≥ 4 ∧ be32 a 4 / 2 % 2 = 1 then 1 else 0) + stunChangePorts fuel (a.drop (4 + (len + 3) / 4 * 4))

def appPayload (f : Bytes) : Bytes :=
  match ipProto f with
  | some 6 => let t := l4Bytes f
              t.drop (if u8 t 12 / 16 > 5 then u8 t 12 / 16 * 4 else 20)
  | some 17 => (l4Bytes f).drop 8
  | _ => []

def judgeC03 (cfg : Cfg) (f : Bytes) (r : Option Bytes) : Verdict :=
  match r with
  | none => pass false
  | some r =>
    let pl := appPayload f
    let rp := appPayload r
    let stunReply : Bool := u8 rp 0 = 1 && u8 rp 1 = 1
    -- a well-formed Binding Request answered by a Binding Success Response: the port rule is exact
    -- (no other responder's reply to a payload starting `00 01` starts with `01 01`)
    match (if stunReply then parseStun pl else none) with
    | some m =>
      if m.cls = 0 ∧ m.method = 1 then
        (if mirrors cfg f r (changePortCount m) then pass true
         else failv "STUN change-port rule: the response does not come from destination port + number of change-port requests")
      else if mirrors cfg f r 0 then pass true
      else failv "reply is not the mirror image of the request"
    | none =>
      if mirrors cfg f r 0 then pass true
      else
        -- the responder only looks at the attribute area announced by the length field
        let k := stunChangePorts (be16 pl 2 + 1) ((pl.drop 20).take (be16 pl 2))
        if k > 0 ∧ stunReply ∧ mirrors cfg f r k then pass true
        else failv "reply is not the mirror image of the request"

def judgeC04 (r : Option Bytes) : Verdict :=
  match r with
  | none => pass false
  | some r => if frameWf r then pass true else failv "emitted frame is not well-formed"

def judgeC06 (cfg : Cfg) (f : Bytes) (r : Option Bytes) : Verdict :=
  match tcpDelivered cfg f with
  | none => pass false
  | some (fl, t) =>
    let flags := tcpFlagsOf t
    if flags &&& SYN ≠ SYN then pass false
    else
      let isSynAck : Bool := match r.bind replyTcp with
        | some rt => tcpFlagsOf rt = SYN + ACK && be32 rt 8 = (be32 t 4 + 1) % 4294967296 && rt.length = 20
        | none => false
      if isSynAck ≠ linuxSynOk flags then failv "SYN policy differs from the Linux rule"
      else if isSynAck then
        match r.bind replyTcp with
        | some rt => if be32 rt 4 = flowCookie cfg fl then pass true else failv "SYN-ACK sequence number is not the cookie"
        | none => pass true
      else pass true

/-- C07: compare with the reference connection model (validated bit per FLOW) -/
def judgeC07 (cfg : Cfg) (js : JState) (f : Bytes) (r : Option Bytes) : JState × Verdict :=
  match tcpDelivered cfg f with
  | none => (js, pass false)
  | some (fl, t) =>
    let v := js.validated.contains fl
    let (e, v') := refTcp v (flowCookie cfg fl) (segOf t)
    let js' := if v' ∧ !v then { js with validated := js.validated ++ [fl] } else js
    let rt : Option Bytes := r.bind replyTcp
    if r.isSome ∧ rt.isNone then (js', failv "reply to a TCP segment is not TCP")
    else if meets e rt then (js', pass true)
    else if js.validated.any (fun g => g ≠ fl ∧ flowCookie cfg g = flowCookie cfg fl) then
      (js', failv "segment judged through another flow's table entry (cookie collision)")
    else (js', failv "segment answered differently from the reference connection model")

def dedup (l : List Nat) : List Nat := l.foldl (fun acc x => if acc.contains x then acc else acc ++ [x]) []

/-- C09: table size after the frame = number of distinct validated flows -/
def judgeC09 (cfg : Cfg) (js : JState) (f : Bytes) (tsize : Nat) : JState × Verdict :=
  let js' : JState := match tcpDelivered cfg f with
    | none => js
    | some (fl, t) =>
      let v := js.validated.contains fl
      let (_, v') := refTcp v (flowCookie cfg fl) (segOf t)
      if v' ∧ !v then { js with validated := js.validated ++ [fl] } else js
  let nflows := js'.validated.length
  let ncookies := (dedup (js'.validated.map (flowCookie cfg))).length
  if tsize = nflows then (js', pass (tcpDelivered cfg f).isSome)
  else if tsize = ncookies then (js', failv "table smaller than the number of validated flows (cookie collision)")
  else (js', failv "connection table size differs from the number of validated flows")

def judgeC05arp (cfg : Cfg) (f : Bytes) (r : Option Bytes) : Option Verdict :=
  if arpRequestFor cfg f then
    some (match r with
      | some r => if arpReplyOk cfg f r then pass true else failv "ARP reply fields wrong"
      | none => failv "ARP request for a handled address not answered")
  else if isArp f ∧ authMac cfg (sub f 0 6) ∧ be16 f 20 ≠ 1 then
    some (if r.isNone then pass true else failv "ARP operation other than request answered")
  else if isArp f ∧ be16 f 20 = 1 ∧ !handled cfg (.v4 (sub f 38 4)) then
    some (if r.isNone then pass true else failv "ARP request for an unhandled address answered")
  else none

def judgeC05 (cfg : Cfg) (f : Bytes) (r : Option Bytes) : Verdict :=
  match judgeC05arp cfg f r with
  | some v => v
  | none =>
    let must (ok : Bytes → Bool) (what : String) : Verdict :=
      match r with
      | some r => if ok r then pass true else failv (what ++ ": reply fields wrong")
      | none => failv (what ++ ": not answered")
    let silent (what : String) : Verdict :=
      if r.isNone then pass true else failv (what ++ ": answered")
    if echo4Request cfg f then must (echo4ReplyOk f) "ICMPv4 echo request"
    else if icmp4Other cfg f then silent "ICMPv4 message other than a code-0 echo request"
    else if echo6Request cfg f then must (echo6ReplyOk f) "ICMPv6 echo request"
    else if nsRequest cfg f then must (naReplyOk cfg f) "Neighbour Solicitation for a handled target"
    else if icmp6Other cfg f then silent "ICMPv6 message other than code-0 echo request / NS"
    else if deliverable cfg f true 58 4 then
      -- code-0 echo to an unhandled address, code-0 NS for an unhandled target or shorter than 24 bytes
      silent "ICMPv6 echo/NS outside the handled addresses"
    else pass false

end Masscanned.Spec
