/-
  Spec/Stun — C15: STUN (RFC 3489 / RFC 5389) binding requests and the success response that
  reflects the observed transport address.
-/
import Masscanned.Spec.Wire
namespace Masscanned.Spec
open Masscanned

/-- attributes as (type, value) pairs; TLVs padded to 4 bytes; `none` if malformed -/
def stunTlvs : Nat → Bytes → Option (List (Nat × Bytes))
  | 0, _ => none
  | fuel + 1, a =>
    if a.isEmpty then some [] else
    if a.length < 4 then none else
    let ty := be16 a 0
    let len := be16 a 2
    let padded := (len + 3) / 4 * 4
    if a.length < 4 + padded then none else
    match stunTlvs fuel (a.drop (4 + padded)) with
    | none => none
    | some l => some ((ty, (a.drop 4).take len) :: l)

structure StunMsg where
  cls : Nat          -- 0 request, 1 indication, 2 success response, 3 error response
  method : Nat
  tid : Bytes        -- the 128-bit transaction id (RFC 3489) = magic cookie + 96-bit id (RFC 5389)
  attrs : List (Nat × Bytes)
  deriving Repr

/-- a complete STUN message: two zero top bits, length field = bytes that follow, well-formed TLVs -/
def parseStun (p : Bytes) : Option StunMsg :=
  if p.length < 20 ∨ u8 p 0 ≥ 64 then none else
  let t := be16 p 0
  let len := be16 p 2
  if p.length ≠ 20 + len then none else
  match stunTlvs (len + 1) (p.drop 20) with
  | none => none
  | some attrs =>
    some { cls := (t / 256 % 2) * 2 + (t / 16 % 2),
           method := (t / 512 % 32) * 128 + (t / 32 % 8) * 16 + t % 16,
           tid := sub p 4 16, attrs := attrs }

def isBindingRequest (p : Bytes) : Bool :=
  match parseStun p with
  | some m => m.cls = 0 && m.method = 1
  | none => false

/-- CHANGE-REQUEST attributes (type 3, 4-byte flags) with the change-port flag (0x2) -/
def changePortCount (m : StunMsg) : Nat :=
  (m.attrs.filter (fun a => a.1 = 3 && a.2.length ≥ 4 && be32 a.2 0 / 2 % 2 = 1)).length

/-- Binding Success Response: same transaction id, length = attribute bytes, MAPPED-ADDRESS =
    (family of the IP version, source port, source address) of the request -/
def stunSuccessOk (req : StunMsg) (r : Bytes) (src : Ip) (sport : Nat) : Bool :=
  match parseStun r with
  | none => false
  | some m =>
    m.cls = 2 && m.method = 1 && m.tid = req.tid &&
    (match m.attrs.find? (fun a => a.1 = 1) with
     | none => false
     | some (_, v) =>
       match src with
       | .v4 a => v.length = 8 && u8 v 1 = 1 && be16 v 2 = sport && v.drop 4 = a
       | .v6 a => v.length = 20 && u8 v 1 = 2 && be16 v 2 = sport && v.drop 4 = a)

/-- a STUN message of another class or method (must get no STUN response) -/
def stunOther (p : Bytes) : Bool :=
  match parseStun p with
  | some m => !(m.cls = 0 && m.method = 1)
  | none => false

def looksStunResponse (r : Bytes) : Bool :=
  match parseStun r with
  | some m => m.cls = 2 || m.cls = 3
  | none => false

end Masscanned.Spec
