/-
  Spec/Wire — the properties' vocabulary for layers 2-4, written independently of Model/:
  own field readers, own checksum definition (ones-complement sum by `% 65535`, not by
  folding), well-formedness of an emitted frame (C04), authorised MAC set (C02), mirror
  relation (C03).  Everything is executable (Bool) so that the same predicates judge the
  implementation's real output.
-/
import Masscanned.Model.Basic
namespace Masscanned.Spec
open Masscanned

/-- big-endian 16-bit words, an odd trailing byte is padded with a zero byte -/
def wsum : Bytes → Nat
  | [] => 0
  | [a] => a.toNat * 256
  | a :: b :: t => a.toNat * 256 + b.toNat + wsum t

/-- ones-complement (end-around-carry) value of a sum -/
def ones (n : Nat) : Nat := if n = 0 then 0 else if n % 65535 = 0 then 65535 else n % 65535

/-- a checksummed block is valid iff its ones-complement sum is 0xFFFF -/
def csumOk (b : Bytes) : Bool := ones (wsum b) = 65535

def u8 (b : Bytes) (i : Nat) : Nat := (b.getD i 0).toNat
def be16 (b : Bytes) (i : Nat) : Nat := u8 b i * 256 + u8 b (i + 1)
def be32 (b : Bytes) (i : Nat) : Nat := be16 b i * 65536 + be16 b (i + 2)
def sub (b : Bytes) (i n : Nat) : Bytes := (b.drop i).take n

def pseudo4 (src dst : Bytes) (proto len : Nat) : Bytes :=
  src ++ dst ++ [0, UInt8.ofNat proto, UInt8.ofNat (len / 256), UInt8.ofNat (len % 256)]

def pseudo6 (src dst : Bytes) (nh len : Nat) : Bytes :=
  src ++ dst ++ [UInt8.ofNat (len / 16777216), UInt8.ofNat (len / 65536 % 256), UInt8.ofNat (len / 256 % 256),
                 UInt8.ofNat (len % 256), 0, 0, 0, UInt8.ofNat nh]

/-! ### well-formedness of an emitted frame (C04) -/

def tcpWf (pseudo : Bytes) (t : Bytes) : Bool :=
  t.length ≥ 20 &&
  (let doff := u8 t 12 / 16
   doff ≥ 5 && doff * 4 ≤ t.length) &&
  csumOk (pseudo ++ t) &&
  -- SYN|ACK must advertise a non-zero window
  (if u8 t 13 / 2 % 2 = 1 ∧ u8 t 13 / 16 % 2 = 1 then be16 t 14 ≠ 0 else true)

def udpWf (pseudo : Bytes) (u : Bytes) (zeroAllowed : Bool) : Bool :=
  u.length ≥ 8 && be16 u 4 = u.length &&
  (if be16 u 6 = 0 then zeroAllowed else csumOk (pseudo ++ u))

def ipv4Wf (p : Bytes) : Bool :=
  p.length ≥ 20 &&
  u8 p 0 / 16 = 4 &&
  (let ihl := u8 p 0 % 16
   ihl ≥ 5 && ihl * 4 ≤ p.length &&
   be16 p 2 = p.length &&
   -- not a fragment: MF clear, offset 0
   be16 p 6 % 16384 = 0 &&
   u8 p 8 ≥ 1 &&
   csumOk (p.take (ihl * 4)) &&
   (let l4 := p.drop (ihl * 4)
    let src := sub p 12 4
    let dst := sub p 16 4
    let proto := u8 p 9
    if proto = 1 then l4.length ≥ 4 && csumOk l4
    else if proto = 6 then tcpWf (pseudo4 src dst 6 l4.length) l4
    else if proto = 17 then udpWf (pseudo4 src dst 17 l4.length) l4 true
    else false))

def ipv6Wf (p : Bytes) : Bool :=
  p.length ≥ 40 &&
  u8 p 0 / 16 = 6 &&
  be16 p 4 = p.length - 40 &&
  u8 p 7 ≥ 1 &&
  (let l4 := p.drop 40
   let src := sub p 8 16
   let dst := sub p 24 16
   let nh := u8 p 6
   if nh = 58 then
     l4.length ≥ 4 && csumOk (pseudo6 src dst 58 l4.length ++ l4) &&
     (if u8 l4 0 = 136 then u8 p 7 = 255 else true)
   else if nh = 6 then tcpWf (pseudo6 src dst 6 l4.length) l4
   else if nh = 17 then udpWf (pseudo6 src dst 17 l4.length) l4 false
   else false)

/-- WF(r) of property C04 (ARP replies carry no checksum or length field: only their size is checked) -/
def frameWf (r : Bytes) : Bool :=
  r.length ≥ 14 &&
  (let ety := be16 r 12
   let p := r.drop 14
   if ety = 0x0806 then p.length ≥ 28
   else if ety = 0x0800 then ipv4Wf p
   else if ety = 0x86dd then ipv6Wf p
   else false)

/-! ### authorised destination MACs (C02), from RFC 1112 §6.4 and RFC 2464 §7 / RFC 4291 §2.7.1 -/

def authMac (cfg : Cfg) (m : Bytes) : Bool :=
  m = cfg.mac || m = [255, 255, 255, 255, 255, 255] || m = [0x33, 0x33, 0, 0, 0, 1] ||
  (match cfg.selfIps with
   | none => false
   | some l => l.any (fun ip => match ip with
      | .v4 a => m = [1, 0, 0x5e, UInt8.ofNat (u8 a 1 % 128), a.getD 2 0, a.getD 3 0]
      | .v6 a => m = [0x33, 0x33, 0xff, a.getD 13 0, a.getD 14 0, a.getD 15 0]))

/-- source IP address of an IP frame (request or reply) -/
def srcIp (f : Bytes) : Option Ip :=
  let ety := be16 f 12
  if ety = 0x0800 ∧ f.length ≥ 34 then some (.v4 (sub f 26 4))
  else if ety = 0x86dd ∧ f.length ≥ 54 then some (.v6 (sub f 22 16))
  else none

def dstIp (f : Bytes) : Option Ip :=
  let ety := be16 f 12
  if ety = 0x0800 ∧ f.length ≥ 34 then some (.v4 (sub f 30 4))
  else if ety = 0x86dd ∧ f.length ≥ 54 then some (.v6 (sub f 38 16))
  else none

/-- next protocol of an IP frame -/
def ipProto (f : Bytes) : Option Nat :=
  let ety := be16 f 12
  if ety = 0x0800 ∧ f.length ≥ 34 then some (u8 f 23)
  else if ety = 0x86dd ∧ f.length ≥ 54 then some (u8 f 20)
  else none

def inList (l : Option (List Ip)) (ip : Ip) : Bool :=
  match l with
  | none => false
  | some l => l.contains ip

/-- the conditions under which C02 demands silence -/
def mustBeSilent (cfg : Cfg) (f : Bytes) : Bool :=
  let ety := be16 f 12
  !authMac cfg (sub f 0 6) ||
  (match srcIp f with
   | some s => inList cfg.deny s
   | none => false) ||
  !(ety = 0x0806 || ety = 0x0800 || ety = 0x86dd) ||
  (match ipProto f with
   | some p => if ety = 0x0800 then !(p = 1 || p = 6 || p = 17) else !(p = 58 || p = 6 || p = 17)
   | none => false)

/-- address advertised by a reply: ARP sender protocol address / NA target -/
def advertised (r : Bytes) : Option Ip :=
  let ety := be16 r 12
  if ety = 0x0806 ∧ r.length ≥ 42 then some (.v4 (sub r 28 4))
  else if ety = 0x86dd ∧ r.length ≥ 78 ∧ u8 r 20 = 58 ∧ u8 r 54 = 136 then some (.v6 (sub r 62 16))
  else none

/-- with a self-IP list configured, the reply's source and advertised addresses belong to it -/
def replyInScope (cfg : Cfg) (r : Bytes) : Bool :=
  match cfg.selfIps with
  | none => true
  | some l =>
    (match srcIp r with | some s => l.contains s | none => true) &&
    (match advertised r with | some a => l.contains a | none => true)

/-! ### mirror relation (C03) -/

/-- offset of the L4 header inside a frame, as the receiver locates it -/
def l4Off (f : Bytes) : Nat :=
  if be16 f 12 = 0x0800 then 14 + 20 + (u8 f 14 % 16 * 4 - 20) else 54

def isTcpUdp (f : Bytes) : Bool :=
  match ipProto f with
  | some p => p = 6 || p = 17
  | none => false

/-- ND Neighbour Solicitation: the reply is sourced from the solicited target -/
def nsTarget (f : Bytes) : Option Ip :=
  if be16 f 12 = 0x86dd ∧ f.length ≥ 78 ∧ u8 f 20 = 58 ∧ u8 f 54 = 135 then some (.v6 (sub f 62 16)) else none

/-- `stunBump` = number of times the STUN change-port rule applies (0 for everything else) -/
def mirrors (cfg : Cfg) (f r : Bytes) (stunBump : Nat) : Bool :=
  r.length ≥ 14 &&
  sub r 6 6 = cfg.mac && sub r 0 6 = sub f 6 6 && be16 r 12 = be16 f 12 &&
  (if be16 f 12 = 0x0806 then true
   else
     dstIp r = srcIp f &&
     (match nsTarget f with
      | some t => srcIp r = some t
      | none => srcIp r = dstIp f) &&
     ipProto r = ipProto f &&
     (if isTcpUdp f then
        let fo := l4Off f
        let ro := l4Off r
        be16 r (ro + 2) = be16 f fo && be16 r ro = (be16 f (fo + 2) + stunBump) % 65536
      else true))

end Masscanned.Spec
