/-
  Spec/L4 — vocabulary of the layer-2..4 behaviour properties (C05, C06, C07, C09):
  when a frame is *deliverable* to a layer-4 handler, the Linux SYN rule, the reference
  connection model (per-flow "validated" bit), expected ARP / ND / echo answers.
  Independent of Model/ (own readers from Spec/Wire).
-/
import Masscanned.Spec.Wire
namespace Masscanned.Spec
open Masscanned

/-- is `ip` one of ours (no list configured = every address is ours) -/
def handled (cfg : Cfg) (ip : Ip) : Bool :=
  match cfg.selfIps with
  | none => true
  | some l => l.contains ip

/-- the L3 payload as the receiver delimits it (IPv4: IHL/total length, IPv6: payload length) -/
def l4Bytes (f : Bytes) : Bytes :=
  let p := f.drop 14
  if be16 f 12 = 0x0800 then
    let ihl := u8 p 0 % 16
    let start := 20 + (ihl * 4 - 20)
    let stop := min (start + (be16 p 2 - ihl * 4)) p.length
    (p.take stop).drop start
  else
    let stop := min (40 + be16 p 4) p.length
    (p.take stop).drop 40

/-- an IP frame that passes the L2/L3 filters and carries protocol `proto` with at least
    `minLen` bytes of L4 header.  `anyDst` = the destination-IP filter does not apply
    (ICMPv6, which is filtered later per message type). -/
def deliverable (cfg : Cfg) (f : Bytes) (v6 : Bool) (proto minLen : Nat) : Bool :=
  f.length ≥ 14 && authMac cfg (sub f 0 6) &&
  be16 f 12 = (if v6 then 0x86dd else 0x0800) &&
  f.length ≥ (if v6 then 54 else 34) &&
  (match srcIp f with | some s => !inList cfg.deny s | none => false) &&
  (match dstIp f with | some d => handled cfg d || (v6 && proto = 58) | none => false) &&
  ipProto f = some proto &&
  (l4Bytes f).length ≥ minLen

/-! ### C06: the Linux SYN rule, on the 9 TCP flag bits (NS CWR ECE URG ACK PSH RST SYN FIN) -/

def tcpFlagsOf (t : Bytes) : Nat := u8 t 12 % 2 * 256 + u8 t 13

def FIN : Nat := 1
def SYN : Nat := 2
def RST : Nat := 4
def PSH : Nat := 8
def ACK : Nat := 16
def URG : Nat := 32
def ECE : Nat := 64
def CWR : Nat := 128

/-- SYN set, remaining flags ⊆ {PSH, URG, CWR, ECE}, not both CWR and ECE -/
def linuxSynOk (flags : Nat) : Bool :=
  flags &&& SYN = SYN &&
  flags &&& (511 - (SYN + PSH + URG + CWR + ECE)) = 0 &&
  !(flags &&& (CWR + ECE) = CWR + ECE)

/-- header fields of a TCP segment -/
structure Seg where
  sport : Nat
  dport : Nat
  seq : Nat
  ack : Nat
  flags : Nat
  payloadLen : Nat
  deriving Repr, DecidableEq

def tcpDataLen (t : Bytes) : Nat :=
  let doff := u8 t 12 / 16
  t.length - (if doff > 5 then doff * 4 else 20)

def segOf (t : Bytes) : Seg :=
  { sport := be16 t 0, dport := be16 t 2, seq := be32 t 4, ack := be32 t 8, flags := tcpFlagsOf t,
    payloadLen := tcpDataLen t }

/-- what the reference connection model says about the answer to a segment -/
inductive Expect where
  | silent
  /-- a reply with these flags (PSH left free when `pshFree`), sequence and acknowledgement numbers -/
  | reply (flags : Nat) (pshFree : Bool) (seq ack : Nat) (emptyPayload : Bool)
  deriving Repr, DecidableEq

/-- reference connection model: `validated` = the flow already presented a valid cookie;
    `ck` = the SYN cookie of the flow.  Returns the expectation and the new `validated`. -/
def refTcp (validated : Bool) (ck : Nat) (s : Seg) : Expect × Bool :=
  if s.flags &&& (PSH + ACK) = PSH + ACK then
    if validated ∨ s.ack = (ck + 1) % 4294967296 then
      (.reply ACK true s.ack ((s.seq + s.payloadLen) % 4294967296) false, true)
    else (.silent, validated)
  else if s.flags = ACK ∨ s.flags = RST then (.silent, validated)
  else if s.flags = FIN + ACK then (.reply (FIN + ACK) false s.ack ((s.seq + 1) % 4294967296) true, validated)
  else if linuxSynOk s.flags then (.reply (SYN + ACK) false ck ((s.seq + 1) % 4294967296) true, validated)
  else (.silent, validated)

/-- does a reply TCP segment `t` meet an expectation -/
def meets (e : Expect) (t : Option Bytes) : Bool :=
  match e, t with
  | .silent, none => true
  | .silent, some _ => false
  | .reply _ _ _ _ _, none => false
  | .reply fl pshFree sq ak emptyP, some t =>
    t.length ≥ 20 &&
    (let f := tcpFlagsOf t
     (if pshFree then (f = fl ∨ f = fl + PSH) ∧ (f = fl + PSH ↔ t.length > 20) else f = fl)) &&
    be32 t 4 = sq && be32 t 8 = ak &&
    (if emptyP then t.length = 20 else true)

/-! ### C05: ARP / ND / echo -/

/-- an Ethernet/IPv4 ARP request for a handled address, addressed to an authorised MAC -/
def arpRequestFor (cfg : Cfg) (f : Bytes) : Bool :=
  f.length ≥ 42 && authMac cfg (sub f 0 6) && be16 f 12 = 0x0806 &&
  be16 f 14 = 1 && be16 f 16 = 0x0800 && u8 f 18 = 6 && u8 f 19 = 4 && be16 f 20 = 1 &&
  handled cfg (.v4 (sub f 38 4))

/-- the ARP reply demanded by C05 for such a request -/
def arpReplyOk (cfg : Cfg) (f r : Bytes) : Bool :=
  r.length ≥ 42 && be16 r 12 = 0x0806 &&
  be16 r 14 = 1 && be16 r 16 = 0x0800 && u8 r 18 = 6 && u8 r 19 = 4 && be16 r 20 = 2 &&
  sub r 22 6 = cfg.mac && sub r 28 4 = sub f 38 4 &&          -- sender = (our MAC, requested address)
  sub r 32 6 = sub f 22 6 && sub r 38 4 = sub f 28 4            -- target = the requester's pair

def isArp (f : Bytes) : Bool := f.length ≥ 42 && be16 f 12 = 0x0806

end Masscanned.Spec
