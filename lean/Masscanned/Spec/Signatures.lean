/-
  Spec/Signatures — C10: the published signature set (README / property text), pinned here and
  NOT derived from the code, and the reference identification function: the first signature
  completed by a prefix of the payload ('*' = any byte; all signatures are begin-anchored; three
  STUN forms without magic cookie are end-anchored and only count at the end of a datagram).
-/
import Masscanned.Model.Basic
namespace Masscanned.Spec
open Masscanned

inductive Sym where
  | lit (b : UInt8)
  | any
  deriving DecidableEq, Repr

structure Sig where
  id : Nat
  pat : List Sym
  endAnchored : Bool
  deriving Repr

def lits (s : String) : List Sym := s.toUTF8.toList.map Sym.lit
def bytesSym (l : List UInt8) : List Sym := l.map Sym.lit
def anyN (n : Nat) : List Sym := List.replicate n Sym.any

def ID_HTTP : Nat := 1
def ID_STUN : Nat := 2
def ID_SSH : Nat := 3
def ID_GHOST : Nat := 4
def ID_RPC_TCP : Nat := 5
def ID_RPC_UDP : Nat := 6
def ID_SMB1 : Nat := 7
def ID_SMB2 : Nat := 8

def httpVerbs : List String := ["GET", "PUT", "POST", "HEAD", "DELETE", "CONNECT", "OPTIONS", "TRACE", "PATCH"]

/-- ONC-RPC call: xid, message type 0 (call), RPC version 0..255, program 0x000186xx (99840..100095),
    program version (any), procedure 0..255 -/
def rpcCall : List Sym :=
  anyN 4 ++ bytesSym [0, 0, 0, 0] ++ bytesSym [0, 0, 0] ++ [.any] ++ bytesSym [0, 1, 0x86] ++ [.any] ++ anyN 4
  ++ bytesSym [0, 0, 0] ++ [.any]

def sigs : List Sig :=
  (httpVerbs.map fun v => { id := ID_HTTP, pat := lits (v ++ " /"), endAnchored := false }) ++
  [ -- STUN binding request with the RFC 5389 magic cookie
    { id := ID_STUN, pat := bytesSym [0, 1] ++ anyN 2 ++ bytesSym [0x21, 0x12, 0xa4, 0x42], endAnchored := false },
    -- RFC 3489 binding requests without cookie: empty, or with one CHANGE-REQUEST attribute
    { id := ID_STUN, pat := bytesSym [0, 1, 0, 0] ++ anyN 16, endAnchored := true },
    { id := ID_STUN, pat := bytesSym [0, 1, 0, 8] ++ anyN 16 ++ bytesSym [0, 3, 0, 4, 0, 0, 0] ++ [.any], endAnchored := true },
    { id := ID_SSH, pat := lits "SSH-2.0", endAnchored := false },
    { id := ID_SSH, pat := lits "SSH-1.99", endAnchored := false },
    { id := ID_GHOST, pat := lits "Gh0st", endAnchored := false },
    -- over TCP the call is preceded by the 4-byte record mark
    { id := ID_RPC_TCP, pat := anyN 4 ++ rpcCall, endAnchored := false },
    { id := ID_RPC_UDP, pat := rpcCall, endAnchored := false },
    -- SMB inside a NetBIOS session message (type 0, reserved 0, 16-bit length)
    { id := ID_SMB1, pat := bytesSym [0, 0] ++ anyN 2 ++ bytesSym [0xff, 0x53, 0x4d, 0x42], endAnchored := false },
    { id := ID_SMB2, pat := bytesSym [0, 0] ++ anyN 2 ++ bytesSym [0xfe, 0x53, 0x4d, 0x42], endAnchored := false } ]

def symMatch : Sym → UInt8 → Bool
  | .any, _ => true
  | .lit c, b => c = b

/-- `pat` matches a prefix of `s` (of length `pat.length`) -/
def prefixMatch : List Sym → Bytes → Bool
  | [], _ => true
  | _ :: _, [] => false
  | p :: ps, b :: bs => symMatch p b && prefixMatch ps bs

/-- signatures (not end-anchored) completed exactly by the first `n` bytes of `s` -/
def completedAt (s : Bytes) (n : Nat) : Option Nat :=
  (sigs.find? (fun g => !g.endAnchored && g.pat.length = n && n ≤ s.length && prefixMatch g.pat s)).map (·.id)

/-- first non-end-anchored signature completed by a prefix of `s`, scanning prefix lengths upwards -/
def refStream (s : Bytes) : Option Nat :=
  (List.range (s.length + 1)).findSome? (completedAt s)

/-- end-anchored signatures: the whole datagram, no more, no less -/
def refEnd (s : Bytes) : Option Nat :=
  (sigs.find? (fun g => g.endAnchored && g.pat.length = s.length && prefixMatch g.pat s)).map (·.id)

/-- identification of a datagram: stream rule first, then the end-anchored forms -/
def refDatagram (s : Bytes) : Option Nat :=
  match refStream s with
  | some i => some i
  | none => refEnd s

def patStunMagic : List Sym := bytesSym [0, 1] ++ anyN 2 ++ bytesSym [0x21, 0x12, 0xa4, 0x42]

/-- The known shadow set of the compiled matcher (finding K2, see known_findings.json): a literal
    edge of one signature shadows a wildcard position of another, so a payload that completes the
    shadowed signature is not identified.  Exactly these (pattern, position, byte) triples:
    STUN-with-magic-cookie position 2 byte 0x00; ONC-RPC/TCP position 0 byte in {00,C,D,G,H,O,P,S,T}
    and position 4 byte 0x00; ONC-RPC/UDP position 0 byte in the same nine values. -/
def nineBytes : List UInt8 := [0, 67, 68, 71, 72, 79, 80, 83, 84]

def shadowed (s : Bytes) : Bool :=
  (prefixMatch patStunMagic s && s.getD 2 1 = 0) ||
  (prefixMatch (anyN 4 ++ rpcCall) s && (nineBytes.contains (s.getD 0 1) || s.getD 4 1 = 0)) ||
  (prefixMatch rpcCall s && nineBytes.contains (s.getD 0 1))

end Masscanned.Spec
