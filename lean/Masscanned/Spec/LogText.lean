/-
  Spec/LogText — C20, text level: a reader for the lines the console and logfmt loggers print.
  It is written from the two formats' grammar, independently of Model/Logger:

    console : <secs>.<millis> TAB proto TAB verb TAB col TAB col …            (one line per event)
    logfmt  : ts=<secs>.<millis> SP proto=<p> SP verb=<v> SP { SP key=value }

  `parseConsole` / `parseLogfmt` return the event a line describes (layer, verb and the seven
  client-info fields, ARP addresses put into the same fields, client first) or `none` when the line is
  not a syntactically complete line of the format.  `mdriver judge C20` runs them on the real
  loggers' stdout; `Thm/C20Text.lean` proves that they read back every line of Model/Logger.
-/
import Masscanned.Model.Basic
import Masscanned.Gen.LogNames
namespace Masscanned.Spec.LogText
open Masscanned

/-- split at every occurrence of `sep` (always at least one field) -/
def splitAt (sep : UInt8) : Bytes → List Bytes
  | [] => [[]]
  | b :: t =>
    if b = sep then [] :: splitAt sep t
    else match splitAt sep t with
      | [] => [[b]]
      | h :: r => (b :: h) :: r

def isDigit (b : UInt8) : Bool := 48 ≤ b.toNat && b.toNat ≤ 57

/-- a non-empty decimal numeral -/
def parseDec (b : Bytes) : Option Nat :=
  if b.isEmpty || !b.all isDigit then none
  else some (b.foldl (fun a d => a * 10 + (d.toNat - 48)) 0)

def hexVal (b : UInt8) : Option Nat :=
  let n := b.toNat
  if 48 ≤ n ∧ n ≤ 57 then some (n - 48)
  else if 97 ≤ n ∧ n ≤ 102 then some (n - 87)
  else if 65 ≤ n ∧ n ≤ 70 then some (n - 55)
  else none

/-- a hexadecimal numeral of 1..`maxDigits` digits -/
def parseHex (maxDigits : Nat) (b : Bytes) : Option Nat :=
  if b.isEmpty || b.length > maxDigits then none
  else b.foldl (fun a d => match a, hexVal d with
                  | some a, some v => some (a * 16 + v)
                  | _, _ => none) (some 0)

/-- `xx:xx:xx:xx:xx:xx` -/
def parseMac (b : Bytes) : Option Bytes :=
  let parts := splitAt 58 b
  if parts.length ≠ 6 then none
  else
    let vals := parts.map (fun p => if p.length = 2 then parseHex 2 p else none)
    if vals.all (·.isSome) then some (vals.map (fun v => UInt8.ofNat (v.getD 0))) else none

/-- dotted quad -/
def parseV4Text (b : Bytes) : Option Bytes :=
  let parts := splitAt 46 b
  if parts.length ≠ 4 then none
  else
    let vals := parts.map (fun p => match parseDec p with
                             | some v => if v ≤ 255 ∧ p.length ≤ 3 then some v else none
                             | none => none)
    if vals.all (·.isSome) then some (vals.map (fun v => UInt8.ofNat (v.getD 0))) else none

/-- the 16-bit groups of one side of an IPv6 text form: colon separated hex groups, the last one
    possibly a dotted quad (two groups); the empty string has no groups -/
def v6Groups (b : Bytes) : Option (List Nat) :=
  if b.isEmpty then some []
  else
    let parts := splitAt 58 b
    let front := parts.dropLast
    let last := parts.getLast?.getD []
    let fg := front.map (parseHex 4)
    let lg : Option (List Nat) :=
      if last.contains 46 then
        (parseV4Text last).map (fun q =>
          [(q.getD 0 0).toNat * 256 + (q.getD 1 0).toNat, (q.getD 2 0).toNat * 256 + (q.getD 3 0).toNat])
      else (parseHex 4 last).map (fun g => [g])
    match lg with
    | some lg => if fg.all (·.isSome) then some (fg.map (·.getD 0) ++ lg) else none
    | none => none

/-- position of the first "::" -/
def findDouble : Bytes → Option Nat
  | 58 :: 58 :: _ => some 0
  | _ :: t => (findDouble t).map (· + 1)
  | [] => none

def groupsToBytes (g : List Nat) : Bytes :=
  g.foldr (fun x acc => UInt8.ofNat (x / 256) :: UInt8.ofNat (x % 256) :: acc) []

/-- RFC 4291 text forms: eight groups, or one "::" standing for one or more zero groups -/
def parseV6Text (b : Bytes) : Option Bytes :=
  match findDouble b with
  | none =>
    match v6Groups b with
    | some g => if g.length = 8 then some (groupsToBytes g) else none
    | none => none
  | some i =>
    match v6Groups (b.take i), v6Groups (b.drop (i + 2)) with
    | some l, some r =>
      if l.length + r.length ≤ 7 then some (groupsToBytes (l ++ List.replicate (8 - l.length - r.length) 0 ++ r))
      else none
    | _, _ => none

def parseIpText (b : Bytes) : Option Ip :=
  if b.contains 58 then (parseV6Text b).map .v6 else (parseV4Text b).map .v4

def parseLayerText (b : Bytes) : Option Layer :=
  if b = "eth".toUTF8.toList then some .eth else if b = "arp".toUTF8.toList then some .arp
  else if b = "ipv4".toUTF8.toList then some .ipv4 else if b = "ipv6".toUTF8.toList then some .ipv6
  else if b = "icmpv4".toUTF8.toList then some .icmpv4 else if b = "icmpv6".toUTF8.toList then some .icmpv6
  else if b = "tcp".toUTF8.toList then some .tcp else if b = "udp".toUTF8.toList then some .udp
  else none

def parseVerbText (b : Bytes) : Option Verb :=
  if b = "recv".toUTF8.toList then some .recv else if b = "drop".toUTF8.toList then some .drop
  else if b = "send".toUTF8.toList then some .send else none

/-- an optional column: empty = absent; present = must parse -/
def optField {α : Type} (p : Bytes → Option α) (b : Bytes) : Option (Option α) :=
  if b.isEmpty then some none else (p b).map some

/-- the printed protocol name → number (`unknown` is printed for every unassigned value: no number) -/
def parseTransport (b : Bytes) : Option (Option Nat) :=
  if b.isEmpty then some none
  else if b = "unknown".toUTF8.toList then some none
  else match Gen.ipProtoNames.idxOf? b with
    | some i => some (some i)
    | none => none

/-- `Name(<decimal>)` -/
def parseWrapped (name : String) (b : Bytes) : Option Nat :=
  let pre := name.toUTF8.toList ++ [40]
  if b.take pre.length = pre ∧ b.getLast? = some 41 then parseDec ((b.drop pre.length).dropLast) else none

/-- `<digits>.<digits>` -/
def isTimestamp (b : Bytes) : Bool :=
  match splitAt 46 b with
  | [s, m] => (parseDec s).isSome && (parseDec m).isSome
  | _ => false

def mkEv (l : Layer) (v : Verb) (ms md : Option Bytes) (is id : Option Ip) (tr ps pd : Option Nat) : Ev :=
  { layer := l, verb := v,
    ci := { macSrc := ms, macDst := md, ipSrc := is, ipDst := id, transport := tr, portSrc := ps, portDst := pd } }

/-- one line of the console logger (without its LF) -/
def parseConsole (line : Bytes) : Option Ev :=
  match splitAt 9 line with
  | ts :: l :: v :: cols =>
    if !isTimestamp ts then none else
    match parseLayerText l, parseVerbText v with
    | some .arp, some v =>
      match cols with
      | [sha, tha, spa, tpa, op] =>
        match parseMac sha, parseMac tha, parseV4Text spa, parseV4Text tpa, parseWrapped "ArpOperation" op with
        | some sha, some tha, some spa, some tpa, some op =>
          some (mkEv .arp v (some sha) (some tha) (some (.v4 spa)) (some (.v4 tpa)) (some op) none none)
        | _, _, _, _, _ => none
      | _ => none
    | some l, some v =>
      match cols with
      | ms :: md :: is :: id :: tr :: ps :: pd :: _extra :: _ =>
        match optField parseMac ms, optField parseMac md, optField parseIpText is, optField parseIpText id,
              parseTransport tr, optField parseDec ps, optField parseDec pd with
        | some ms, some md, some is, some id, some tr, some ps, some pd => some (mkEv l v ms md is id tr ps pd)
        | _, _, _, _, _, _, _ => none
      | _ => none
    | _, _ => none
  | _ => none

/-- `key=value` → (key, value); keys are non-empty words of `[a-z0-9_]` -/
def parseKv (b : Bytes) : Option (Bytes × Bytes) :=
  match b.idxOf? 61 with
  | some i =>
    let k := b.take i
    if !k.isEmpty && k.all (fun c => isDigit c || (97 ≤ c.toNat && c.toNat ≤ 122) || c = 95) then some (k, b.drop (i + 1)) else none
  | none => none

def lookupKv (kvs : List (Bytes × Bytes)) (k : String) : Bytes :=
  match kvs.find? (·.1 = k.toUTF8.toList) with
  | some (_, v) => v
  | none => []

/-- one line of the logfmt logger (without its LF): space separated `key=value` items (empty items,
    i.e. doubled spaces, are allowed), no key twice, `ts`, `proto`, `verb` first.
    The ARP `send` line labels the addresses from the reply's point of view: they are swapped back. -/
def parseLogfmt (line : Bytes) : Option Ev :=
  let items := (splitAt 32 line).filter (!·.isEmpty)
  let kvs := items.map parseKv
  if !kvs.all (·.isSome) then none else
  let kvs := kvs.filterMap id
  let keys := kvs.map (·.1)
  if keys.eraseDups.length ≠ keys.length then none else
  if keys.take 3 ≠ ["ts".toUTF8.toList, "proto".toUTF8.toList, "verb".toUTF8.toList] then none else
  if !isTimestamp (lookupKv kvs "ts") then none else
  match parseLayerText (lookupKv kvs "proto"), parseVerbText (lookupKv kvs "verb") with
  | some .arp, some v =>
    let (a, b, c, d) := if v = .send then ("mac_dst", "mac_src", "ip_dst", "ip_src") else ("mac_src", "mac_dst", "ip_src", "ip_dst")
    match parseMac (lookupKv kvs a), parseMac (lookupKv kvs b), parseV4Text (lookupKv kvs c), parseV4Text (lookupKv kvs d),
          parseWrapped "ArpOperation" (lookupKv kvs "op") with
    | some sha, some tha, some spa, some tpa, some op =>
      some (mkEv .arp v (some sha) (some tha) (some (.v4 spa)) (some (.v4 tpa)) (some op) none none)
    | _, _, _, _, _ => none
  | some l, some v =>
    match optField parseMac (lookupKv kvs "mac_src"), optField parseMac (lookupKv kvs "mac_dst"),
          optField parseIpText (lookupKv kvs "ip_src"), optField parseIpText (lookupKv kvs "ip_dst"),
          parseTransport (lookupKv kvs "transport"),
          optField parseDec (lookupKv kvs "port_src"), optField parseDec (lookupKv kvs "port_dst") with
    | some ms, some md, some is, some id, some tr, some ps, some pd => some (mkEv l v ms md is id tr ps pd)
    | _, _, _, _, _, _, _ => none
  | _, _ => none

end Masscanned.Spec.LogText
