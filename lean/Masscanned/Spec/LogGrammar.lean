/-
  Spec/LogGrammar — C20: the per-frame event sequence must be balanced and nested from Ethernet
  inwards, its Ethernet terminal must be `send` exactly when a reply frame is emitted, and the
  addresses/ports carried by the events must be those of the frame.
-/
import Masscanned.Spec.Judge
namespace Masscanned.Spec
open Masscanned

def isTerminal (v : Verb) : Bool := v = .send || v = .drop

/-- layers that may appear inside an IPv4 / IPv6 event pair -/
def l4Of (outer inner : Layer) : Bool :=
  match outer with
  | .ipv4 => inner = .icmpv4 || inner = .tcp || inner = .udp
  | .ipv6 => inner = .icmpv6 || inner = .tcp || inner = .udp
  | _ => false

/-- `eth.recv (arp.recv arp.T | ipX.recv (l4.recv l4.T)? ipX.T)? eth.T`, with consistent terminals:
    an inner `drop` forces the outer `drop`, an inner `send` forces the outer `send`. -/
def wellNested (evs : List (Layer × Verb)) : Bool :=
  match evs with
  | [] => true
  | [(.eth, .recv), (.eth, t)] => t = .drop
  | [(.eth, .recv), (.arp, .recv), (.arp, t1), (.eth, t0)] => isTerminal t1 && t0 = t1
  | [(.eth, .recv), (l3, .recv), (l3', t1), (.eth, t0)] =>
    (l3 = .ipv4 || l3 = .ipv6) && l3' = l3 && t1 = .drop && t0 = .drop
  | [(.eth, .recv), (l3, .recv), (l4, .recv), (l4', t2), (l3', t1), (.eth, t0)] =>
    (l3 = .ipv4 || l3 = .ipv6) && l3' = l3 && l4Of l3 l4 && l4' = l4 && isTerminal t2 && t1 = t2 && t0 = t1
  | _ => false

/-- the Ethernet-level terminal of a frame's events -/
def ethTerminal (evs : List (Layer × Verb)) : Option Verb :=
  match evs.getLast? with
  | some (.eth, v) => some v
  | _ => none

/-- events ⇔ reply: no events only for a runt frame; otherwise terminal `send` iff a reply exists -/
def terminalMatchesReply (f : Bytes) (evs : List (Layer × Verb)) (replied : Bool) : Bool :=
  if f.length < 14 then evs.isEmpty && !replied
  else match ethTerminal evs with
    | some .send => replied
    | some .drop => !replied
    | _ => false

/-- the client-info fields an event may print, given the frame: every present field must be the
    frame's own value (`portDst` may be the STUN-rewritten one, i.e. anything, on send events of a
    reply whose payload is a STUN success response; that exception is checked by C03/C15). -/
def fieldsOfFrame (f : Bytes) (e : Ev) (stunReply : Bool) : Bool :=
  if e.layer = .arp then
    -- ARP events print the ARP addresses of the request (recv/drop) or of the reply (send)
    (match e.ci.macSrc with | some m => m = sub f 22 6 | none => false) &&
    (match e.ci.ipSrc with | some (.v4 a) => a = sub f 28 4 | _ => false) &&
    (match e.ci.ipDst with | some (.v4 a) => a = sub f 38 4 | _ => false)
  else
    (match e.ci.macSrc with | some m => m = sub f 6 6 | none => false) &&
    (match e.ci.macDst with | some m => m = sub f 0 6 | none => false) &&
    (match e.ci.ipSrc with | some a => some a = srcIp f | none => e.layer = .eth) &&
    (match e.ci.ipDst with | some a => some a = dstIp f | none => e.layer = .eth) &&
    (match e.ci.transport with | some p => some p = ipProto f | none => true) &&
    (match e.ci.portSrc with
     | some p => p = be16 f (l4Off f) && (e.layer = .tcp || e.layer = .udp || e.verb ≠ .recv)
     | none => !(e.layer = .tcp || e.layer = .udp)) &&
    (match e.ci.portDst with
     | some p => p = be16 f (l4Off f + 2) || (stunReply && e.verb = .send)
     | none => !(e.layer = .tcp || e.layer = .udp))

def judgeC20 (f : Bytes) (r : Option Bytes) (evs : List Ev) : Verdict :=
  let lv := evs.map (fun e => (e.layer, e.verb))
  if !wellNested lv then failv "event sequence is not balanced / nested"
  else if !terminalMatchesReply f lv r.isSome then failv "Ethernet terminal event does not match the fate of the frame"
  else
    let stun := match r with
      | some r => let a := appPayload r; u8 a 0 = 1 && u8 a 1 = 1
      | none => false
    if evs.all (fun e => fieldsOfFrame f e stun) then pass (!evs.isEmpty)
    else failv "an event prints addresses/ports that are not the frame's"

end Masscanned.Spec
