/-
  Spec/Dns — C14: an independent DNS message parser (RFC 1035 label structure) and the relation
  "this reply is the faithful IN/A answer to that query sent to that IPv4 address".
-/
import Masscanned.Spec.Wire
namespace Masscanned.Spec
open Masscanned

structure DQ where
  /-- the encoded name, length-prefixed labels including the terminating root label -/
  name : Bytes
  qtype : Nat
  qclass : Nat
  deriving DecidableEq, Repr

/-- read a name made of labels (1..63 bytes each, no compression), at most 255 bytes in total -/
def readName : Nat → Bytes → Bytes → Option (Bytes × Bytes)
  | 0, _, _ => none
  | fuel + 1, acc, p =>
    match p with
    | [] => none
    | l :: t =>
      if l = 0 then (if acc.length + 1 ≤ 255 then some (acc ++ [0], t) else none)
      else if l.toNat > 63 ∨ t.length < l.toNat then none
      else readName fuel (acc ++ [l] ++ t.take l.toNat) (t.drop l.toNat)

def readQuestion (p : Bytes) : Option (DQ × Bytes) :=
  match readName (p.length + 1) [] p with
  | none => none
  | some (n, r) =>
    if r.length < 4 then none
    else some ({ name := n, qtype := be16 r 0, qclass := be16 r 2 }, r.drop 4)

def readQuestions : Nat → Bytes → Option (List DQ × Bytes)
  | 0, p => some ([], p)
  | k + 1, p =>
    match readQuestion p with
    | none => none
    | some (q, r) =>
      match readQuestions k r with
      | none => none
      | some (qs, r') => some (q :: qs, r')

structure DRR where
  name : Bytes
  rtype : Nat
  rclass : Nat
  ttl : Nat
  rdata : Bytes
  deriving DecidableEq, Repr

def readRR (p : Bytes) : Option (DRR × Bytes) :=
  match readName (p.length + 1) [] p with
  | none => none
  | some (n, r) =>
    if r.length < 10 then none
    else
      let rdlen := be16 r 8
      if (r.drop 10).length < rdlen then none
      else some ({ name := n, rtype := be16 r 0, rclass := be16 r 2, ttl := be32 r 4, rdata := (r.drop 10).take rdlen },
                 (r.drop 10).drop rdlen)

def readRRs : Nat → Bytes → Option (List DRR × Bytes)
  | 0, p => some ([], p)
  | k + 1, p =>
    match readRR p with
    | none => none
    | some (x, r) =>
      match readRRs k r with
      | none => none
      | some (xs, r') => some (x :: xs, r')

structure DMsg where
  id : Nat
  flags : Nat
  qd : List DQ
  an : List DRR
  nscount : Nat
  arcount : Nat
  rest : Bytes
  deriving Repr

def parseDns (p : Bytes) : Option DMsg :=
  if p.length < 12 then none else
  match readQuestions (be16 p 4) (p.drop 12) with
  | none => none
  | some (qs, r) =>
    match readRRs (be16 p 6) r with
    | none => none
    | some (an, r') => some { id := be16 p 0, flags := be16 p 2, qd := qs, an := an, nscount := be16 p 8,
                              arcount := be16 p 10, rest := r' }

/-- label bytes never 0x00 (the responder ends a name at the first zero byte; names with an
    embedded NUL are outside the precondition of C14, see DESIGN.md) -/
def labelsNoNul : Nat → Bytes → Bool
  | 0, _ => true
  | fuel + 1, n =>
    match n with
    | [] => true
    | l :: t => if l = 0 then true else (t.take l.toNat).all (· ≠ 0) && labelsNoNul fuel (t.drop l.toNat)

/-- a query (QR=0) made only of IN/A questions, nothing else in the message -/
def inAQuery (p : Bytes) : Option DMsg :=
  match parseDns p with
  | none => none
  | some m =>
    if m.flags / 32768 = 0 ∧ m.an.isEmpty ∧ m.nscount = 0 ∧ m.arcount = 0 ∧ m.rest.isEmpty ∧
       m.qd.all (fun q => q.qtype = 1 ∧ q.qclass = 1) then some m else none

/-- the response demanded by C14 -/
def dnsReplyOk (q : DMsg) (r : Bytes) (dst4 : Bytes) : Bool :=
  match parseDns r with
  | none => false
  | some a =>
    a.rest.isEmpty && a.nscount = 0 && a.arcount = 0 &&
    a.id = q.id &&
    a.flags / 32768 = 1 &&                                   -- QR
    a.flags / 2048 % 16 = q.flags / 2048 % 16 &&              -- opcode
    a.flags / 256 % 2 = q.flags / 256 % 2 &&                  -- RD
    a.qd = q.qd &&                                            -- question section echoed
    a.an.length = q.qd.length &&
    (List.zip q.qd a.an).all (fun (p : DQ × DRR) =>
      p.2.name = p.1.name && p.2.rtype = 1 && p.2.rclass = 1 && p.2.rdata = dst4)

/-- a message that contains a question that is not IN/A (and is otherwise a parseable query) -/
def hasNonInA (p : Bytes) : Bool :=
  match parseDns p with
  | some m => m.flags / 32768 = 0 && m.qd.any (fun q => !(q.qtype = 1 ∧ q.qclass = 1))
  | none => false

/-- `short` = the bytes present are a proper prefix of a message with this header (every label seen so
    far is legal but the data ends early) -/
inductive Scan where
  | done (rest : Bytes)
  | short
  | bad

def scanName : Nat → Bytes → Scan
  | 0, _ => .bad
  | fuel + 1, p =>
    match p with
    | [] => .short
    | l :: t =>
      if l = 0 then .done t
      else if l.toNat > 63 then .bad
      else if t.length < l.toNat then .short
      else scanName fuel (t.drop l.toNat)

def scanQuestions : Nat → Bytes → Scan
  | 0, p => .done p
  | k + 1, p =>
    match scanName (p.length + 1) p with
    | .done r => if r.length < 4 then .short else scanQuestions k (r.drop 4)
    | x => x

def scanRRs : Nat → Bytes → Scan
  | 0, p => .done p
  | k + 1, p =>
    match scanName (p.length + 1) p with
    | .done r =>
      if r.length < 10 then .short
      else if (r.drop 10).length < be16 r 8 then .short
      else scanRRs k ((r.drop 10).drop (be16 r 8))
    | x => x

/-- truncated message: ends before the sections announced in its header are complete -/
def dnsTruncated (p : Bytes) : Bool :=
  if p.length < 12 then true else
  match scanQuestions (be16 p 4) (p.drop 12) with
  | .short => true
  | .bad => false
  | .done r =>
    match scanRRs (be16 p 6) r with
    | .short => true
    | _ => false

end Masscanned.Spec
