/-
  Spec/Http — C13: the request grammar of the property (strict), the exact language the
  responder is allowed to answer (relaxed, see DESIGN.md §7 C13), and well-formedness of the
  401 response.  Independent of Model/Http (recognisers written as recursive descent on lists).
-/
import Masscanned.Model.Basic
namespace Masscanned.Spec
open Masscanned

def CR : UInt8 := 13
def LF : UInt8 := 10
def SP : UInt8 := 32
def COLON : UInt8 := 58
def digit (b : UInt8) : Bool := 48 ≤ b && b ≤ 57

def httpMethods : List Bytes :=
  ["GET", "PUT", "POST", "HEAD", "DELETE", "CONNECT", "OPTIONS", "TRACE", "PATCH"].map (·.toUTF8.toList)

/-- strip one of the nine methods followed by SP from the front -/
def stripMethod (p : Bytes) : Option Bytes :=
  httpMethods.findSome? (fun m => if (m ++ [SP]).isPrefixOf p then some (p.drop (m.length + 1)) else none)

def stripPrefix (pre p : Bytes) : Option Bytes :=
  if pre.isPrefixOf p then some (p.drop pre.length) else none

def spanP (f : UInt8 → Bool) : Bytes → Bytes × Bytes
  | [] => ([], [])
  | b :: t => if f b then let (a, r) := spanP f t; (b :: a, r) else ([], b :: t)

/-- strip an end of line: CRLF or bare LF -/
def stripEol (p : Bytes) : Option Bytes :=
  match p with
  | 13 :: 10 :: t => some t
  | 10 :: t => some t
  | _ => none

/-- header lines `name ":" value EOL` until the empty line; `name` non-empty without CR/LF/colon,
    value without CR/LF -/
def strictHeaders : Nat → Bytes → Bool
  | 0, _ => false
  | fuel + 1, p =>
    match stripEol p with
    | some _ => true                                   -- the terminating empty line
    | none =>
      let (name, r) := spanP (fun b => b ≠ CR && b ≠ LF && b ≠ COLON) p
      if name.isEmpty then false else
      match r with
      | 58 :: r' =>
        let (_, r'') := spanP (fun b => b ≠ CR && b ≠ LF) r'
        (match stripEol r'' with
         | some rest => strictHeaders fuel rest
         | none => false)
      | _ => false

/-- the property's grammar: METHOD SP "/"target SP "HTTP/" DIGIT+ "." DIGIT+ EOL headers EOL (then anything) -/
def strictRequest (p : Bytes) : Bool :=
  match stripMethod p with
  | none => false
  | some r =>
    let (target, r) := spanP (fun b => b ≠ SP && b ≠ CR && b ≠ LF) r
    if !(target.head? = some 47) then false else
    match r with
    | 32 :: r =>
      (match stripPrefix "HTTP/".toUTF8.toList r with
       | none => false
       | some r =>
         let (maj, r) := spanP digit r
         if maj.isEmpty then false else
         match r with
         | 46 :: r =>
           let (mn, r) := spanP digit r
           if mn.isEmpty then false else
           (match stripEol r with
            | some r => strictHeaders (r.length + 1) r
            | none => false)
         | _ => false)
    | _ => false

/-- header section of the relaxed language: `( CR* c0 n* ":" v* LF )* CR* LF`
    with c0 ∉ {CR, LF}, n ∉ {CR, LF, ":"} … note c0 may itself be ":"?  No: a line consisting of ":" only is
    rejected by the responder (the first byte enters the name state without being examined, the colon must
    come later), so c0 is any byte except CR/LF and the colon must FOLLOW it. -/
def relaxedHeaders : Nat → Bytes → Bool
  | 0, _ => false
  | fuel + 1, p =>
    let (_, r) := spanP (· = CR) p
    match r with
    | 10 :: _ => true
    | c0 :: r =>
      if c0 = CR ∨ c0 = LF then false else
      let (_, r) := spanP (fun b => b ≠ CR && b ≠ LF && b ≠ COLON) r
      (match r with
       | 58 :: r =>
         let (_, r) := spanP (· ≠ LF) r
         (match r with
          | 10 :: rest => relaxedHeaders fuel rest
          | _ => false)
       | _ => false)
    | [] => false

/-- exact language answered by the responder:
    `VERB SP T SP "HTTP/" d* "." (d|CR)* LF headers` with T ∈ [^SP]* (it starts with "/" because of the signature) -/
def relaxedRequest (p : Bytes) : Bool :=
  match stripMethod p with
  | none => false
  | some r =>
    if !(r.head? = some 47) then false else
    let (_, r) := spanP (· ≠ SP) r
    match r with
    | 32 :: r =>
      (match stripPrefix "HTTP/".toUTF8.toList r with
       | none => false
       | some r =>
         let (_, r) := spanP digit r
         match r with
         | 46 :: r =>
           let (_, r) := spanP (fun b => digit b || b = CR) r
           (match r with
            | 10 :: r => relaxedHeaders (r.length + 1) r
            | _ => false)
         | _ => false)
    | _ => false

/-! ### the response -/

def splitOnce (sep : Bytes) : Nat → Bytes → Option (Bytes × Bytes)
  | 0, _ => none
  | fuel + 1, p =>
    if sep.isPrefixOf p then some ([], p.drop sep.length) else
    match p with
    | [] => none
    | b :: t => match splitOnce sep fuel t with
      | some (a, r) => some (b :: a, r)
      | none => none

def splitLines (p : Bytes) : List Bytes :=
  (p.splitOn LF).map (fun l => if l.getLast? = some CR then l.dropLast else l)

def parseDec (b : Bytes) : Option Nat :=
  if b.isEmpty ∨ !b.all digit then none else some (b.foldl (fun a x => a * 10 + (x.toNat - 48)) 0)

def trimSp (b : Bytes) : Bytes := (b.dropWhile (· = SP)).reverse.dropWhile (· = SP) |>.reverse

def lowerB (b : UInt8) : UInt8 := if 65 ≤ b ∧ b ≤ 90 then b + 32 else b

/-- the payload starts with one of the nine methods in any letter case (necessary for an answer of the responder,
    whatever follows) -/
def nocaseMethodPrefix (p : Bytes) : Bool :=
  httpMethods.any fun m => decide ((p.take m.length).map lowerB = m.map lowerB)


def headerValue (lines : List Bytes) (name : String) : Option Bytes :=
  let n := (name ++ ":").toUTF8.toList
  (lines.find? (fun l => (l.take n.length).map lowerB = n.map lowerB)).map (fun l => trimSp (l.drop n.length))

/-- `HTTP/1.1 401` status line, a WWW-Authenticate challenge, Content-Length = number of body bytes -/
def reply401Ok (r : Bytes) : Bool :=
  let sepLF : Bytes := [LF, LF]
  let sepCRLF : Bytes := [CR, LF, CR, LF]
  let parts := match splitOnce sepCRLF (r.length + 1) r, splitOnce sepLF (r.length + 1) r with
    | some (h1, b1), some (h2, b2) => if h1.length ≤ h2.length then some (h1, b1) else some (h2, b2)
    | some x, none => some x
    | none, some x => some x
    | none, none => none
  match parts with
  | none => false
  | some (head, body) =>
    let lines := splitLines head
    (match lines.head? with
     | some l => "HTTP/1.1 401".toUTF8.toList.isPrefixOf l
     | none => false) &&
    (headerValue lines.tail "WWW-Authenticate").isSome &&
    (match (headerValue lines.tail "Content-Length").bind parseDec with
     | some n => n = body.length
     | none => false)

end Masscanned.Spec
