/-
  Spec/Ssh — C18: the SSH identification-string language and the Gh0st frame consistency
  (with an independent inflate: RFC 1950 zlib wrapper, RFC 1951 stored and fixed-Huffman blocks).
-/
import Masscanned.Spec.Http
namespace Masscanned.Spec
open Masscanned

def DASH : UInt8 := 45
def DOT : UInt8 := 46

def hasCRLF : Bytes → Bool
  | 13 :: 10 :: _ => true
  | _ :: t => hasCRLF t
  | [] => false

/-- `SSH-<digits and dots>-<rest>` with CR LF somewhere in `rest`, beginning with SSH-2.0 or SSH-1.99 -/
def sshAnswered (p : Bytes) : Bool :=
  ("SSH-2.0".toUTF8.toList.isPrefixOf p || "SSH-1.99".toUTF8.toList.isPrefixOf p) &&
  (let (_, r) := spanP (fun b => digit b || b = DOT) (p.drop 4)
   match r with
   | 45 :: rest => hasCRLF rest
   | _ => false)

/-- the strict RFC 4253 form: `SSH-protoversion-softwareversion [SP comments] CR LF`, software without SP/CR/LF… the
    property allows arbitrary bytes incl. lone CR in software/comment, so strict = answered language restricted to
    identification strings that END with the first CR LF -/
def sshStrict (p : Bytes) : Bool := sshAnswered p

def sshBannerExpected : Bytes := "SSH-2.0-1\r\n".toUTF8.toList

/-! ### inflate (RFC 1951), bits LSB-first -/

def bitsOf (b : Bytes) : List Bool :=
  b.flatMap (fun x => (List.range 8).map (fun i => x.toNat / 2 ^ i % 2 = 1))

def takeBitsLE (n : Nat) (bs : List Bool) : Option (Nat × List Bool) :=
  if bs.length < n then none
  else some ((bs.take n).zipIdx.foldl (fun a (p : Bool × Nat) => a + (if p.1 then 2 ^ p.2 else 0)) 0, bs.drop n)

/-- Huffman codes are packed MSB-first -/
def takeBitsBE (n : Nat) (bs : List Bool) : Option (Nat × List Bool) :=
  if bs.length < n then none
  else some ((bs.take n).foldl (fun a b => a * 2 + (if b then 1 else 0)) 0, bs.drop n)

/-- decode one fixed-Huffman literal/length symbol -/
def fixedSym (bs : List Bool) : Option (Nat × List Bool) :=
  match takeBitsBE 7 bs with
  | none => none
  | some (c7, r7) =>
    if c7 ≤ 23 then some (256 + c7, r7)
    else match takeBitsBE 8 bs with
      | none => none
      | some (c8, r8) =>
        if 48 ≤ c8 ∧ c8 ≤ 191 then some (c8 - 48, r8)
        else if 192 ≤ c8 ∧ c8 ≤ 199 then some (280 + (c8 - 192), r8)
        else match takeBitsBE 9 bs with
          | none => none
          | some (c9, r9) => if 400 ≤ c9 ∧ c9 ≤ 511 then some (144 + (c9 - 400), r9) else none

def lenBase : List (Nat × Nat) :=
  [(3,0),(4,0),(5,0),(6,0),(7,0),(8,0),(9,0),(10,0),(11,1),(13,1),(15,1),(17,1),(19,2),(23,2),(27,2),(31,2),
   (35,3),(43,3),(51,3),(59,3),(67,4),(83,4),(99,4),(115,4),(131,5),(163,5),(195,5),(227,5),(258,0)]
def distBase : List (Nat × Nat) :=
  [(1,0),(2,0),(3,0),(4,0),(5,1),(7,1),(9,2),(13,2),(17,3),(25,3),(33,4),(49,4),(65,5),(97,5),(129,6),(193,6),
   (257,7),(385,7),(513,8),(769,8),(1025,9),(1537,9),(2049,10),(3073,10),(4097,11),(6145,11),(8193,12),(12289,12),
   (16385,13),(24577,13)]

def copyBack (out : Bytes) (dist : Nat) : Nat → Option Bytes
  | 0 => some out
  | n + 1 =>
    if dist = 0 ∨ dist > out.length then none
    else copyBack (out ++ [out.getD (out.length - dist) 0]) dist n

/-- symbols of one fixed-Huffman block -/
def fixedBlock : Nat → List Bool → Bytes → Option (Bytes × List Bool)
  | 0, _, _ => none
  | fuel + 1, bs, out =>
    match fixedSym bs with
    | none => none
    | some (sym, r) =>
      if sym < 256 then fixedBlock fuel r (out ++ [UInt8.ofNat sym])
      else if sym = 256 then some (out, r)
      else
        match lenBase[sym - 257]? with
        | none => none
        | some (lb, le) =>
          match takeBitsLE le r with
          | none => none
          | some (lx, r) =>
            match takeBitsBE 5 r with
            | none => none
            | some (dc, r) =>
              match distBase[dc]? with
              | none => none
              | some (db, de) =>
                match takeBitsLE de r with
                | none => none
                | some (dx, r) =>
                  match copyBack out (db + dx) (lb + lx) with
                  | none => none
                  | some out' => fixedBlock fuel r out'

def inflateBlocks : Nat → List Bool → Bytes → Option (Bytes × List Bool)
  | 0, _, _ => none
  | fuel + 1, bs, out =>
    match takeBitsLE 1 bs with
    | none => none
    | some (final, r) =>
      match takeBitsLE 2 r with
      | none => none
      | some (ty, r) =>
        let res : Option (Bytes × List Bool) :=
          if ty = 0 then
            -- stored: skip to the byte boundary, LEN, NLEN, bytes
            let used := (bs.length - r.length)
            let r := r.drop ((8 - used % 8) % 8)
            match takeBitsLE 16 r with
            | none => none
            | some (len, r) =>
              match takeBitsLE 16 r with
              | none => none
              | some (nlen, r) =>
                if len + nlen ≠ 65535 ∨ r.length < 8 * len then none
                else
                  let bytes := (List.range len).map (fun i =>
                    UInt8.ofNat (((r.drop (8 * i)).take 8).zipIdx.foldl (fun a (p : Bool × Nat) => a + (if p.1 then 2 ^ p.2 else 0)) 0))
                  some (out ++ bytes, r.drop (8 * len))
          else if ty = 1 then fixedBlock (bs.length + 1) r out
          else none
        match res with
        | none => none
        | some (out', r') => if final = 1 then some (out', r') else inflateBlocks fuel r' out'

def adler32 (d : Bytes) : Nat :=
  let (a, b) := d.foldl (fun (ab : Nat × Nat) x => let a := (ab.1 + x.toNat) % 65521; (a, (ab.2 + a) % 65521)) (1, 0)
  b * 65536 + a

/-- zlib stream: CMF/FLG header (deflate, check bits, no preset dictionary), deflate data, Adler-32 -/
def zlibInflate (z : Bytes) : Option Bytes :=
  match z with
  | cmf :: flg :: rest =>
    if cmf.toNat % 16 ≠ 8 ∨ (cmf.toNat * 256 + flg.toNat) % 31 ≠ 0 ∨ flg.toNat / 32 % 2 = 1 then none
    else
      match inflateBlocks (rest.length + 1) (bitsOf rest) [] with
      | none => none
      | some (out, remBits) =>
        -- the Adler-32 trailer follows at the next byte boundary and ends the stream
        let consumedBits := 8 * rest.length - remBits.length
        let trailer := rest.drop ((consumedBits + 7) / 8)
        if trailer.length = 4 ∧ trailer.foldl (fun a x => a * 256 + x.toNat) 0 = adler32 out then some out else none
  | _ => none

/-- Gh0st frame: magic, little-endian total length = frame length, little-endian uncompressed length =
    length of the inflated zlib body -/
def ghostFrameOk (r : Bytes) : Bool :=
  "Gh0st".toUTF8.toList.isPrefixOf r && r.length ≥ 13 &&
  (let total := ((r.drop 5).take 4).reverse.foldl (fun a x => a * 256 + x.toNat) 0
   let ulen := ((r.drop 9).take 4).reverse.foldl (fun a x => a * 256 + x.toNat) 0
   total = r.length &&
   (match zlibInflate (r.drop 13) with
    | some d => d.length = ulen
    | none => false))

end Masscanned.Spec
