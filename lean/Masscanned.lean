import Masscanned.Model.Basic
import Masscanned.Model.Checksum
import Masscanned.Model.SipHash
