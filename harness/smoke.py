import sys; sys.path.insert(0, '/verif/harness')
from lib import *
S4, D4 = ip4('1.2.3.4'), ip4('10.0.0.1')
S6, D6 = bytes([0x20]*16), bytes([0x30]*16)
apps = [
 b"GET / HTTP/1.1\r\nHost: a\r\n\r\n", b"SSH-2.0-OpenSSH_8.1 foo\r\n", b"Gh0st\xad\x00\x00\x00\xe0\x00\x00\x00x\x9c",
 bytes.fromhex('0001000021 12a442'.replace(' ','')) + bytes(12),
 b"\x00\x01\x00\x08\x01\xdb\xd4]4\x9f\xe2RQ\x19\x05,\x93\x14f4\x00\x03\x00\x04\x00\x00\x00\x02",
 b"\x00\x01\x01\x00\x21\x12\xa4\x42" + bytes([7]*12) + b"\x80\x22\x00\x04abcd"*32,
 b"\x12\x34\x01\x00\x00\x01\x00\x00\x00\x00\x00\x00\x03www\x07example\x03com\x00\x00\x01\x00\x01",
 bytes([0x80,2,3,4, 0,0,0,0, 0,0,0,2, 0,1,0x86,0xa0, 0,0,0,2, 0,0,0,3, 0,0,0,0,0,0,0,0, 0,0,0,0,0,0,0,0, 0,0,0,0]),
 bytes([0x80,0,0,40, 0x80,2,3,4, 0,0,0,0, 0,0,0,2, 0,1,0x86,0xa0, 0,0,0,4, 0,0,0,4, 0,0,0,1,0,0,0,4,1,2,3,4, 0,0,0,0,0,0,0,0]),
 bytes([0x80,0,0,40, 0x80,2,3,4, 0,0,0,0, 0,0,0,2, 0,1,0x86,0xa0, 0,0,0,3, 0,0,0,3, 0,0,0,0,0,0,0,0, 0,0,0,0,0,0,0,0]),
 b"\x00\x00\x00\x2f\xffSMB\x72\x00\x00\x00\x00\x18\x01\x28\x00\x00\x00\x00\x00\x00\x00\x00\x00\x00\x00\x00\x00\x00\x00\x00\x00\x00\x00\x00\x00\x0c\x00\x02NT LM 0.12\x00",
]
import struct
smb = b"\xfeSMB"+struct.pack('<HHIHHIIQQQ',64,0,0,0,1,0,0,7,0,0)+bytes(16)
neg = struct.pack('<HHHHI',36,2,1,0,0)+bytes([5]*16)+bytes(8)+bytes([2,2,0x10,2])
p = smb+neg; apps.append(bytes([0,0,len(p)>>8,len(p)&255])+p)
ss = struct.pack('<HBBIIHHQ',25,0,1,0,0,0x58,4,0)+b'abcd'
smb1 = b"\xfeSMB"+struct.pack('<HHIHHIIQQQ',64,0,0,1,1,0,0,8,0,0)+bytes(16)
p = smb1+ss; apps.append(bytes([0,0,len(p)>>8,len(p)&255])+p)
ops=[('C', default_cfg(logger='console', level='trace'))]
for a in apps:
    ops.append(('F', eth(MAC_ME, MAC_CL, 0x0800, ipv4(S4, D4, 17, udp(1000,80,a)))))
    ops.append(('F', eth(MAC_ME, MAC_CL, 0x86dd, ipv6(S6, D6, 17, udp(1000,80,a)))))
    ck = cookie((0,0), S4, D4, 1000, 80)
    ops.append(('X',))
    ops.append(('F', eth(MAC_ME, MAC_CL, 0x0800, ipv4(S4, D4, 6, tcp(1000,80,5,(ck+1)&0xffffffff,0x18,a)))))
    ck = cookie((0,0), S6, D6, 1000, 80)
    ops.append(('F', eth(MAC_ME, MAC_CL, 0x86dd, ipv6(S6, D6, 6, tcp(1000,80,5,(ck+1)&0xffffffff,0x18,a)))))
ops.append(('F', eth(MAC_ME, MAC_CL, 0x0800, ipv4(S4, D4, 6, tcp(1000,80,5,0,0x02)))))
ops.append(('F', eth(MAC_ME, MAC_CL, 0x0800, ipv4(S4, D4, 6, tcp(1000,80,5,9,0x11)))))
ops.append(('F', eth(MAC_ME, MAC_CL, 0x0800, ipv4(S4, D4, 1, icmp(8,0,b'\0\1\0\2abcde')))))
ops.append(('F', eth(MAC_ME, MAC_CL, 0x86dd, ipv6(S6, D6, 58, icmp6(128,0,b'\0\1\0\2abcde')))))
ops.append(('F', eth(MAC_ME, MAC_CL, 0x86dd, ipv6(S6, D6, 58, icmp6(135,0,bytes(4)+D6+bytes([1,1,2,0,0,0,0,1]))))))
ops.append(('F', eth(BCAST, MAC_CL, 0x0806, arp(1, MAC_CL, S4, bytes(6), D4))))
ops.append(('F', b'\1\2\3'))
ib, rc, err, part = run_impl(ops)
print('impl rc', rc, len(ib), part is not None, err[:300])
# env
mops=[]
for o,b in zip(ops,ib):
    if o[0]=='F' and b['r'] not in ('-',) and not b['r'].startswith('PANIC'):
        d,s = extract_env(bytes.fromhex(b['r']))
        if d is not None or s is not None: mops.append(('E', d or b'', s or 0))
    mops.append(o)
mb, rc, err, part = run_model(mops)
print('model rc', rc, len(mb), err[:300])
nd=0
for i,(o,a,b) in enumerate(zip(ops,ib,mb)):
    la=[x for x in (parse_console_line(l) for l in a['log']) if x]
    if a['r']!=b['r'] or a['t']!=b['t'] or la!=b['log']:
        nd+=1
        print('DIFF op',i,render(o,'impl')[:100]); print('  impl',a['r'][:300],a['t']); print('  modl',b['r'][:300],b['t'])
        if la!=b['log']:
            for x,y in zip(la,b['log']):
                if x!=y: print('   L impl',x); print('   L modl',y)
            print('   nlog',len(la),len(b['log']))
print('diffs',nd,'of',len(ops))
