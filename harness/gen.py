"""Structured generators: application payload grammars, frames, worlds (configurations), histories."""
import struct
from lib import *

# ----------------------------------------------------------------------------- application payloads

HTTP_VERBS = [b'GET', b'PUT', b'POST', b'HEAD', b'DELETE', b'CONNECT', b'OPTIONS', b'TRACE', b'PATCH']


def gen_http(rng, fault=None):
    """(payload, tags). fault in {None, 'verb', 'nosp', 'version', 'nocolon', 'unterminated', 'lower', 'twosp'}"""
    verb = rng.choice(HTTP_VERBS)
    target = b'/' + bytes(rng.choice([0x61, 0x2f, 0x3f, 0x25, 0xff, 0xfe, 0x0d, 0x00, 0x7f, 0x41]) for _ in range(rng.below(12)))
    target = target.replace(b' ', b'_').replace(b'\n', b'_')
    if rng.chance(1, 12):
        # long request-targets (around typical buffer sizes: 255/256, 1023/1024, 2047..2049, 4095/4096, 8 KiB)
        n = rng.choice([255, 256, 1023, 1024, 2047, 2048, 2049, 3000, 4095, 4096, 8191, 8192, 8193, 1 + rng.below(9000)])
        target = b'/' + bytes(0x61 + rng.below(26) for _ in range(n - 1))
    ver = b'HTTP/' + rng.choice([b'1.1', b'1.0', b'2.0', b'0.9', b'11.22', b'1.', b'.', b'1.1'])
    eol = rng.choice([b'\r\n', b'\n', b'\r\n', b'\r\r\n'])
    hdrs = []
    for _ in range(rng.below(4)):
        name = rng.choice([b'Host', b'User-Agent', b'Content-Length', b'Content-Type', b'X-' + bytes([0x41 + rng.below(26)]), b'a'])
        val = rng.choice([b' example.com', b'', b' a:b:c', b' ' + rng.bytes(rng.below(6)).replace(b'\n', b'.'), b'0'])
        if rng.chance(1, 30):
            val = b' ' + bytes(0x61 + rng.below(26) for _ in range(rng.choice([255, 256, 1024, 4096, 8192])))
        hdrs.append(name + b':' + val)
    if fault == 'verb':
        verb = rng.choice([b'BREW', b'GETS', b'XET', b'G', b'', b'PUTT', b'get', b'FOO'])
    if fault == 'lower':
        verb = verb.lower()
    sp1 = b' '
    sp2 = b' '
    if fault == 'nosp':
        sp1 = rng.choice([b'', b'\t'])
    if fault == 'twosp':
        sp2 = b'  '
    if fault == 'version':
        ver = rng.choice([b'HTTP/x.1', b'HTTQ/1.1', b'http/1.1', b'HTTP/1.1x', b'HTTP', b'HTTP/1,1'])
    if fault == 'nocolon':
        hdrs.insert(rng.below(len(hdrs) + 1), rng.choice([b'foo', b'bar baz', b'x']))
    if fault == 'folded':
        # obsolete line folding: a continuation line starting with SP / HT and carrying no colon
        hdrs.insert(rng.below(len(hdrs) + 1), b'Accept: text/html,')
        i = rng.below(len(hdrs)) + 1
        hdrs.insert(i, rng.choice([b' application/xml', b'\tq=0.9', b'  x']))
    body = eol.join([verb + sp1 + target + sp2 + ver] + hdrs) + eol + eol
    if fault == 'unterminated':
        body = body[:-len(eol)]
        if rng.chance(1, 2):
            body = body[:rng.below(len(body) + 1)]
    if fault is None and rng.chance(1, 4):
        body += rng.bytes(rng.below(8))
    return body


def gen_ssh(rng, fault=None):
    ver = rng.choice([b'2.0', b'1.99', b'2.0', b'2.0'])
    soft = bytes(rng.choice([0x4f, 0x70, 0x65, 0x6e, 0x5f, 0x38, 0x2e, 0x0d, 0x2d, 0x00, 0xff]) for _ in range(rng.below(14)))
    soft = soft.replace(b' ', b'_')
    if rng.chance(1, 10):
        # long identification strings (around 255 / 256 bytes, the RFC 4253 limit, and far beyond)
        soft = bytes(0x61 + rng.below(26) for _ in range(rng.choice([240, 244, 245, 246, 247, 250, 300, 1000, 200 + rng.below(100)])))
    comment = b''
    if rng.chance(1, 2):
        comment = b' ' + bytes(rng.choice([0x61, 0x20, 0x0d, 0x41, 0x0a][:4]) for _ in range(rng.below(8)))
    term = b'\r\n'
    if fault == 'unterminated':
        term = rng.choice([b'', b'\r', b'\n', b'\r\r'])
    if fault == 'version':
        ver = rng.choice([b'2.x', b'2.0a', b'2,0'])
    pre = b'SSH-'
    if fault == 'magic':
        pre = rng.choice([b'SSH_', b'SSh-', b'SS', b'ssh-'])
    b = pre + ver + b'-' + soft + comment + term
    if fault is None and rng.chance(1, 4):
        b += rng.bytes(rng.below(6))
    return b


def gen_ghost(rng):
    return b'Gh0st' + rng.bytes(rng.below(24))


def stun_attr(ty, val, length=None, pad=True):
    """RFC 5389 TLV: the value is padded to a multiple of 4 bytes (padding not counted in the length)"""
    v = struct.pack('>HH', ty, len(val) if length is None else length) + val
    if pad and length is None and len(val) % 4:
        v += bytes(4 - len(val) % 4)
    return v


def gen_stun(rng, fault=None, magic=None):
    """STUN binding request; fault in {None,'class','method','lying','short','family'}"""
    if magic is None:
        magic = rng.chance(1, 2)
    tid = rng.choice([bytes(12), rng.bytes(12)])
    attrs = b''
    kind = rng.below(6)
    if kind == 1:
        attrs = stun_attr(3, struct.pack('>I', rng.choice([0, 2, 4, 6])))
    elif kind == 2:
        for _ in range(1 + rng.below(3)):
            attrs += rng.choice([stun_attr(3, struct.pack('>I', rng.choice([2, 6, 0]))),
                                 stun_attr(0x8022, rng.bytes(4 * rng.below(4))),
                                 stun_attr(1, b'\0\1' + rng.bytes(6)),
                                 stun_attr(1, b'\0\2' + rng.bytes(18)),
                                 stun_attr(6, b'user')])
    elif kind == 3:
        attrs = b''.join(stun_attr(0x8022, rng.bytes(4)) for _ in range(32 + rng.below(8)))
    elif kind == 4:
        attrs = stun_attr(0x8022, rng.bytes(252 + rng.below(8)))
        if rng.chance(1, 2):
            attrs += stun_attr(3, struct.pack('>I', rng.choice([2, 6, 0])))
    elif kind == 5:
        # many short attributes with odd lengths (padded), total >= 256 bytes
        while len(attrs) < 256 + rng.below(64):
            attrs += rng.choice([stun_attr(0x8022, rng.bytes(rng.below(9))), stun_attr(6, rng.bytes(1 + rng.below(7))),
                                 stun_attr(3, struct.pack('>I', rng.choice([2, 0]))), stun_attr(1, rng.bytes(rng.choice([0, 3, 4, 8, 20]))),
                                 stun_attr(3, rng.bytes(rng.below(4)))])
    if fault == 'unpadded':
        attrs += stun_attr(0x8022, rng.bytes(1 + 4 * rng.below(3) + rng.below(3)), pad=False) + stun_attr(3, struct.pack('>I', 2))
    if fault == 'lying':
        attrs += stun_attr(rng.choice([0x8022, 1, 3]), rng.bytes(rng.below(8)), length=rng.choice([0xffff, 0x0fff, 9, 100]))
        attrs += rng.bytes(rng.below(5))
    if fault == 'short':
        attrs += struct.pack('>HH', rng.choice([1, 3]), rng.choice([0, 1, 2, 3])) + rng.bytes(rng.below(6)) + b'\0'
    if fault == 'family':
        attrs += stun_attr(1, b'\0' + bytes([rng.choice([0, 3, 255])]) + rng.bytes(6)) + b'\0'
    b0, b1 = 0, 1
    if fault == 'class':
        b0, b1 = rng.choice([(0, 0x11), (1, 0x01), (1, 0x11)])
    if fault == 'method':
        b0, b1 = rng.choice([(0, 2), (0, 3), (2, 1), (0, 0x21), (0, 0)])
    hdr = bytes([b0, b1]) + struct.pack('>H', len(attrs))
    if magic:
        return hdr + b'\x21\x12\xa4\x42' + tid + attrs
    # cookie-less form: the 16 bytes after the length are all transaction id. Some ids make the whole message read as a
    # complete DNS message as well (ID 0x0001, flags = the length, then the four section counts): all-zero counts, or one
    # question whose name / type / class sit in the remaining bytes
    k = rng.below(6)
    if k == 0:
        return hdr + bytes(8) + rng.bytes(8) + attrs
    if k == 1:
        return hdr + bytes(16) + attrs
    if k == 2 and not attrs:
        return hdr + b'\x00\x01\x00\x00\x00\x00\x00\x00\x02ab\x00\x00\x01\x00\x01'
    return hdr + rng.bytes(4) + tid + attrs


def gen_stun_long(rng):
    """cookie-bearing binding request with >= 256 attribute bytes (identified by the matcher despite K2), well-formed"""
    attrs = b''
    while len(attrs) < 256:
        attrs += rng.choice([stun_attr(0x8022, rng.bytes(rng.below(40))), stun_attr(6, rng.bytes(1 + rng.below(16))),
                             stun_attr(3, struct.pack('>I', rng.choice([0, 2, 2, 6, 4])))])
    return b'\x00\x01' + struct.pack('>H', len(attrs)) + b'\x21\x12\xa4\x42' + rng.bytes(12) + attrs


def dns_name(rng):
    if rng.chance(1, 12):
        # boundary names: exactly 255 / 254 octets on the wire (RFC 1035 limit), many one-byte labels
        k = rng.below(4)
        if k == 0:
            lens = [63, 63, 63, 61]
        elif k == 1:
            lens = [63, 63, 63, 60]
        elif k == 2:
            lens = [1] * 127
        else:
            lens = [63, 63, 63, 61][:1 + rng.below(4)]
        return b''.join(bytes([n]) + bytes(0x61 + rng.below(26) for _ in range(n)) for n in lens) + b'\0'
    labels = []
    binary = rng.chance(1, 5)      # labels may hold any octet (RFC 1035 / 2181), zero and dots included
    for _ in range(rng.below(4)):
        n = rng.choice([1, 3, 7, 63, rng.below(20) + 1])
        if binary:
            labels.append(bytes([n]) + bytes(rng.choice([0, 0, 0x2e, 0xff, 0xc0, 1, 0x61, rng.below(256)]) for _ in range(n)))
        else:
            labels.append(bytes([n]) + bytes(0x61 + rng.below(26) for _ in range(n)))
    return b''.join(labels) + b'\0'


def gen_dns(rng, fault=None):
    qn = rng.choice([0, 1, 1, 1, 2, 3, rng.below(6)])
    flags = rng.choice([0x0100, 0x0000, 0x0120, 0x7900, rng.below(0x8000)])
    if fault == 'qr':
        flags |= 0x8000
    an = ns = ar = 0
    if fault == 'sections':
        an, ns, ar = rng.choice([(0, 1, 0), (0, 0, 1), (1, 0, 0), (2, 0, 0), (1, 1, 1)])
    qs = b''
    for i in range(qn):
        t, c = 1, 1
        if fault == 'notina' and (i == 0 or rng.chance(1, 2)):
            t, c = rng.choice([(16, 1), (1, 3), (28, 1), (255, 255), (0, 0), (1, 0), (257, 1), (1, 0x8001), (1, 0x8001), (0x8001, 1), (1, 255)])
        nm = dns_name(rng)
        if fault == 'labels' and len(nm) > 2:
            # a label length byte that lies by a little (overshoots / undershoots the next label or the root)
            pos, k = 0, []
            while nm[pos] != 0:
                k.append(pos)
                pos += 1 + nm[pos]
            j = rng.choice(k + [k[-1]] * 2)       # the last label (the one in front of the root) most often
            nm = nm[:j] + bytes([max(1, min(63, nm[j] + rng.choice([1, 1, 1, 2, -1, 3, 62])))]) + nm[j + 1:]
        qs += nm + struct.pack('>HH', t, c)
    rrs = b''
    for _ in range(an):
        rd = rng.bytes(rng.choice([0, 4, 16]))
        rrs += dns_name(rng) + struct.pack('>HHIH', 1, 1, 60, len(rd)) + rd
    b = struct.pack('>HHHHHH', rng.below(65536), flags, qn, an, ns, ar) + qs + rrs
    if fault == 'truncated' and len(b) > 0:
        b = b[:rng.below(len(b))]
    if fault is None and rng.chance(1, 5):
        b += rng.bytes(rng.below(5))
    return b


def gen_rpc(rng, tcp, fault=None, shadow_ok=False):
    """ONC-RPC call; over TCP with record mark."""
    xid = rng.below(1 << 32)
    if not shadow_ok:
        # avoid the known shadow set of the matcher for the first bytes (K2) unless asked
        while (xid >> 24) in (0, 0x43, 0x44, 0x47, 0x48, 0x4f, 0x50, 0x53, 0x54):
            xid = rng.below(1 << 32)
    prog = rng.choice([100000, 100000, 100000, 100003, 99840, 100095, 100000 + rng.below(95)])
    ver = rng.choice([2, 3, 4, 2, 3, 4, 0, 1, 5, 104316, rng.below(1 << 32)])
    proc = rng.choice([0, 3, 4, 3, 4, 1, 2, 5, 255, rng.below(256)])
    credlen = rng.choice([0, 0, 4, 8, 20, rng.below(40), rng.below(40), 396, 400, 400, 404, 408])      # 400 = the RFC 5531 maximum
    verflen = rng.choice([0, 0, 0, 4, 8])
    mtype = 0
    rpcv = rng.choice([2, 2, 2, rng.below(256)])
    if fault == 'reply':
        mtype = 1
    body = struct.pack('>IIIIII', xid, mtype, rpcv, prog, ver, proc)
    flavor = rng.choice([0, 1, 1, 2, 3, 6])
    creds = rng.bytes(credlen)
    if flavor == 1 and rng.chance(2, 3):
        # AUTH_SYS body (RFC 5531 appendix A): stamp, machine name, uid, gid, gids -- with name / gid counts that may lie
        name = bytes(0x61 + rng.below(26) for _ in range(rng.choice([0, 1, 4, 5, 16, 255])))
        nlen = rng.choice([len(name), len(name), len(name), len(name) + 1, len(name) + 12, 16, 255, 256, 0xffffffff])
        gids = rng.below(4)
        glen = rng.choice([gids, gids, gids + 1, 16, 17, 0xffffffff])
        creds = struct.pack('>II', rng.u32(), nlen) + name + bytes(-len(name) % 4) + struct.pack('>III', 0, 0, glen) + rng.bytes(4 * gids)
        if rng.chance(1, 4):
            creds = creds[:rng.choice([8, 12, len(creds) // 2])]
        credlen = len(creds)
    body += struct.pack('>II', flavor, credlen) + creds
    body += struct.pack('>II', 0, verflen) + rng.bytes(verflen)
    if rng.chance(1, 3):
        body += rng.bytes(rng.below(12))
    if fault == 'truncated':
        body = body[:rng.below(len(body))]
    if tcp:
        mark = 0x80000000 | len(body)
        m = struct.pack('>I', mark)
        if not shadow_ok:
            pass  # 0x80.. is never in the shadow set
        return m + body
    return body


def smb1_header(rng, cmd, flags=0x18):
    return (b'\xffSMB' + bytes([cmd]) + rng.bytes(4) + bytes([flags]) + rng.bytes(2) + struct.pack('<H', rng.below(65536))
            + rng.bytes(8) + b'\0\0' + struct.pack('<HHHH', rng.below(65536), rng.below(65536), rng.below(65536), rng.below(65536)))


def nbt(p):
    return bytes([0, 0, (len(p) >> 8) & 0xff, len(p) & 0xff]) + p


SMB1_DIALECTS = [b'PC NETWORK PROGRAM 1.0', b'LANMAN1.0', b'NT LM 0.12', b'SMB 2.002', b'SMB 2.???', b'Samba', b'NT LANMAN 1.0']


def gen_smb1(rng, fault=None):
    kind = rng.below(2)
    flags = 0x18
    if fault == 'replyflag':
        flags = rng.choice([0x98, 0x98, 0x80, 0x84, 0x9c, 0xff, 0x80 | rng.below(128)])
    cmd = 0x72 if kind == 0 else 0x73
    if fault == 'command':
        cmd = rng.choice([0x71, 0x74, 0x75, 0x25, 0, 255])
    h = smb1_header(rng, cmd, flags)
    if kind == 0:
        ds = []
        for _ in range(1 + rng.below(5)):
            ds.append(rng.choice(SMB1_DIALECTS))
        if rng.chance(1, 4):
            ds.append(ds[0])
        if rng.chance(1, 3):
            # a dialect name of a length around the usual buffer sizes, made of / ending in octets that are not ASCII
            # (the responder keeps the names as text)
            L = rng.choice([1, 15, 16, 17, 30, 31, 32, 33, 63, 64, 65, 127, 128, 129, 255, 256, 300])
            name = bytes(rng.choice([0x41 + rng.below(26), 0x41 + rng.below(26), 0x80 + rng.below(128)]) for _ in range(L - 1)) + bytes([rng.choice([0xe9, 0x80, 0xff, 0xc3, 0x41])])
            ds.insert(rng.below(len(ds) + 1), name.replace(b'\0', b'A'))
        if rng.chance(1, 3):
            # a dialect offered twice, somewhere before the end (duplicates in front of the selected one)
            ds.insert(rng.below(len(ds)), rng.choice(ds))
        if fault == 'nodialect':
            ds = [d for d in ds if d not in (b'NT LM 0.12', b'SMB 2.002', b'SMB 2.???')] or [b'Samba']
        blob = b''.join(b'\x02' + d + b'\0' for d in ds)
        bc = len(blob)
        if fault == 'bytecount':
            bc = rng.choice([0, bc - 1, bc + 1, 65535])
        p = h + bytes([0]) + struct.pack('<H', bc & 0xffff) + blob
    else:
        sl = rng.choice([1, 4, 74, rng.below(100) + 1])
        if fault == 'seclen':
            sl = rng.choice([0, 5000])
        blobn = sl if sl < 2000 else 10
        p = h + bytes([12, 0xff, 0]) + struct.pack('<HHHHIHIIH', 0, 0xffff, 2, 1, 0, sl, 0, 0x8000c044, blobn + 20) + rng.bytes(blobn) + rng.bytes(20 if rng.chance(3, 4) else rng.below(20))
    if fault == 'truncated':
        p = p[:rng.below(len(p))]
    return nbt(p)


SMB2_DIALECTS = [0x0202, 0x0210, 0x0300, 0x0302, 0x0311, 0x02ff, 0x0310]


def smb2_header(rng, cmd, flags=0):
    return (b'\xfeSMB' + struct.pack('<HHIHHII', 64, rng.below(3), 0, cmd, rng.below(64), flags, 0)
            + rng.bytes(8) + rng.bytes(8) + rng.bytes(8) + rng.bytes(16))


def gen_smb2(rng, fault=None):
    kind = rng.below(2)
    flags = 0
    if fault == 'replyflag':
        flags = rng.choice([1, 1, 0x11, 0x31, 0x71, 0x80000001, 0x9, 1 | (rng.u32() & 0xfffffffe)])
    cmd = kind
    if fault == 'command':
        cmd = rng.choice([2, 3, 5, 0x10, 0xffff])
    h = smb2_header(rng, cmd, flags)
    if kind == 0:
        ds = [rng.choice(SMB2_DIALECTS) for _ in range(1 + rng.below(5))]
        if rng.chance(1, 3):
            # a single dialect (each one is the only offer now and then), the same twice, or one between unknown ones
            d0 = SMB2_DIALECTS[rng.below(len(SMB2_DIALECTS))]
            ds = rng.choice([[d0], [d0, d0], [0x1234, d0, 0xffff]])
        if rng.chance(1, 3):
            ds.append(ds[rng.below(len(ds))])  # duplicate
        if rng.chance(1, 4):
            ds.insert(0, rng.choice([0x0100, 0x0999, 0xffff]))
        if fault == 'nodialect':
            ds = [rng.choice([0x0100, 0x0999, 0xffff, 0x0201]) for _ in range(1 + rng.below(3))]
        cnt = len(ds)
        if fault == 'count':
            cnt = rng.choice([0, cnt + 1, cnt + 5])
        p = h + struct.pack('<HHHHI', 36, cnt, 1, 0, 0x7f) + rng.bytes(16) + rng.bytes(8) + b''.join(struct.pack('<H', d) for d in ds)
        if rng.chance(1, 4):
            p += rng.bytes(rng.below(6))
    else:
        sl = rng.choice([1, 4, 74, rng.below(100) + 1])
        if fault == 'seclen':
            sl = rng.choice([0, 5000])
        blobn = sl if sl < 2000 else 10
        p = h + struct.pack('<HBBIIHHQ', 25, 0, 1, 0, 0, 0x58, sl, 0) + rng.bytes(blobn) + rng.bytes(rng.below(8))
    if fault == 'truncated':
        p = p[:rng.below(len(p))]
    return nbt(p)


# destination ports a responder might single out
PORTS = [22, 2222, 80, 8080, 443, 111, 445, 139, 3478, 53, 5353, 21, 23, 25, 2049, 3389]

# receive windows a request segment may advertise (zero-window probes, tiny embedded stacks, the usual scanner values)
WINDOWS = [8192, 8192, 8192, 65535, 1024, 512, 256, 64, 1, 0]

APP_GENS = {
    'http': (gen_http, [None, None, None, None, 'verb', 'nosp', 'version', 'nocolon', 'unterminated', 'lower', 'twosp', 'folded']),
    'ssh': (gen_ssh, [None, None, None, 'unterminated', 'version', 'magic']),
    'stun': (gen_stun, [None, None, None, None, 'class', 'method', 'lying', 'short', 'family', 'unpadded']),
    'dns': (gen_dns, [None, None, None, 'qr', 'sections', 'notina', 'truncated', 'labels']),
    'smb1': (gen_smb1, [None, None, None, 'replyflag', 'command', 'nodialect', 'bytecount', 'seclen', 'truncated']),
    'smb2': (gen_smb2, [None, None, None, 'replyflag', 'command', 'nodialect', 'count', 'seclen', 'truncated']),
}


def gen_app(rng, tcp=False, kinds=None):
    """-> (kind, fault, payload)"""
    k = rng.choice(kinds or ['http', 'ssh', 'ghost', 'stun', 'dns', 'rpc', 'smb1', 'smb2', 'raw'])
    if k == 'ghost':
        return k, None, gen_ghost(rng)
    if k == 'rpc':
        fault = rng.choice([None, None, None, 'reply', 'truncated'])
        return k, fault, gen_rpc(rng, tcp, fault)
    if k == 'raw':
        return k, None, rng.bytes(rng.below(40))
    g, faults = APP_GENS[k]
    fault = rng.choice(faults)
    if k == 'stun' and tcp and fault is None and rng.chance(1, 2):
        # over TCP only the cookie-bearing form with >= 256 attribute bytes is identified
        return k, None, gen_stun_long(rng)
    return k, fault, g(rng, fault)


def mutate(rng, b):
    b = bytearray(b)
    for _ in range(1 + rng.below(3)):
        m = rng.below(6)
        if m == 0:
            del b[rng.below(len(b) + 1):]
        elif m == 1 and b:
            b[rng.below(len(b))] = rng.below(256)
        elif m == 2 and b:
            b[rng.below(len(b))] = rng.choice([0, 0xff, 0x80, 1, 0x7f])
        elif m == 3:
            b += rng.bytes(rng.below(32))
        elif m == 4 and len(b) > 2:
            i = rng.below(len(b) - 1)
            del b[i:i + 1 + rng.below(8)]
        elif m == 5 and b:
            i = rng.below(len(b))
            b[i:i] = rng.bytes(1 + rng.below(4))
    return bytes(b)

# ----------------------------------------------------------------------------- worlds


class World:
    """One configuration plus the address plan used to build frames for it."""

    def __init__(self, rng, selfmode=None, denymode=None, logger='none', level='off', key=None):
        self.mac = rng.choice([MAC_ME, MAC_ME, bytes([0x02]) + rng.bytes(5)])
        self.cl_mac = rng.choice([MAC_CL, bytes([0x02]) + rng.bytes(5)])
        self.my4 = rng.choice([ip4('10.0.0.1'), ip4('192.168.129.7'), rng.bytes(4)])
        self.my6 = rng.choice([ip6('2001:db8::1'), bytes([0x30] * 16), rng.bytes(16), ip6('::ffff:10.0.0.1'), ip6('fe80::1:0:0:1')])
        self.cl4 = rng.choice([ip4('1.2.3.4'), rng.bytes(4)])
        self.cl6 = rng.choice([bytes([0x20] * 16), rng.bytes(16), rng.bytes(16),
                               # special-purpose source addresses: IPv4-mapped, IPv4-compatible, loopback, link-local
                               ip6('::ffff:192.0.2.7'), bytes(12) + rng.bytes(4), ip6('::1'), ip6('fe80::2'), bytes(15) + b'\x02'])
        self.bad4 = ip4('6.6.6.6')
        self.bad6 = ip6('2001:db8::bad')
        self.other4 = ip4('10.0.0.99')
        self.other6 = ip6('2001:db8::99')
        if selfmode is None:
            selfmode = rng.chance(1, 2)
        if denymode is None:
            denymode = rng.chance(1, 2)
        # second handled address of each family (an ND-NS may be sent to one address and solicit another)
        self.my4b = rng.choice([ip4('10.0.0.2'), rng.bytes(4)])
        self.my6b = rng.choice([ip6('2001:db8::2'), rng.bytes(16)])
        if rng.chance(1, 6):
            # IPv4-mapped twins: the IPv6 endpoints are the IPv4 ones in ::ffff:a.b.c.d form
            self.cl6 = bytes(10) + b'\xff\xff' + self.cl4
            self.my6 = bytes(10) + b'\xff\xff' + self.my4
        self.self = [self.my4, self.my6, self.my4b, self.my6b] if selfmode else None
        if selfmode and rng.chance(1, 3):
            # other shapes of the self-IP list: one address per family, a single family, three of one family
            self.self = rng.choice([[self.my4, self.my6], [self.my4], [self.my6], [self.my4, self.my6, self.my6b],
                                    [self.my4, self.my4b, self.my6], [self.my4, self.my6, self.my4b, self.my6b, rng.bytes(16), rng.bytes(4)]])
        self.deny = [self.bad4, self.bad6] if denymode else None
        self.key = key if key is not None else rng.choice([(0, 0), (0, 0), (rng.next(), rng.next())])
        self.logger = logger
        self.level = level

    def cfg(self):
        return dict(mac=self.mac, self=self.self, deny=self.deny, key=self.key, logger=self.logger, level=self.level)

    def cookie(self, src, dst, sport, dport):
        return cookie(self.key, src, dst, sport, dport)

    # frame helpers (well-addressed)
    def f4(self, proto, l4, src=None, dst=None, **kw):
        return eth(self.mac, self.cl_mac, 0x0800, ipv4(src or self.cl4, dst or self.my4, proto, l4, **kw))

    def f6(self, nh, l4, src=None, dst=None, **kw):
        return eth(self.mac, self.cl_mac, 0x86dd, ipv6(src or self.cl6, dst or self.my6, nh, l4, **kw))

    def fip(self, v6, proto, l4, **kw):
        return self.f6(proto, l4, **kw) if v6 else self.f4(proto, l4, **kw)

    def addrs(self, v6, second=False):
        """(client, contacted address); second=True: the second handled address of the family"""
        if second:
            return (self.cl6, self.my6b) if v6 else (self.cl4, self.my4b)
        return (self.cl6, self.my6) if v6 else (self.cl4, self.my4)

    def tcp_frame(self, v6, sport, dport, seq, ack, flags, pl=b'', second=False, **kw):
        s, d = self.addrs(v6, second)
        return self.fip(v6, 6, tcp(sport, dport, seq, ack, flags, pl, src=s, dst=d, **kw), dst=d)

    def udp_frame(self, v6, sport, dport, pl, second=False):
        s, d = self.addrs(v6, second)
        return self.fip(v6, 17, udp(sport, dport, pl, src=s, dst=d), dst=d)

    def data_frame(self, v6, sport, dport, seq, pl, flags=0x18, ackdelta=1, second=False, **kw):
        s, d = self.addrs(v6, second)
        ck = self.cookie(s, d, sport, dport)
        return self.tcp_frame(v6, sport, dport, seq, (ck + ackdelta) & 0xffffffff, flags, pl, second=second, **kw)


def near_miss(rng, mac):
    b = bytearray(mac)
    i = rng.below(6)
    b[i] ^= 1 << rng.below(8)
    return bytes(b)


def dst_macs(rng, w):
    """candidate destination MACs with their class"""
    mc4 = bytes([1, 0, 0x5e, w.my4[1] & 0x7f, w.my4[2], w.my4[3]])
    sn6 = bytes([0x33, 0x33, 0xff]) + w.my6[13:16]
    return [('own', w.mac), ('bcast', BCAST), ('allnodes', bytes.fromhex('333300000001')), ('mc4', mc4), ('sn6', sn6),
            ('near-own', near_miss(rng, w.mac)), ('near-mc4', near_miss(rng, mc4)), ('near-sn6', near_miss(rng, sn6)),
            ('near-allnodes', near_miss(rng, bytes.fromhex('333300000001'))), ('random', rng.bytes(6)),
            ('mc4-other', bytes([1, 0, 0x5e, w.other4[1] & 0x7f, w.other4[2], w.other4[3]])),
            # cross-family near misses: the IPv4 mapping applied to an IPv6 self address and vice versa
            ('xfam-mc4', bytes([1, 0, 0x5e, w.my6[13] & 0x7f, w.my6[14], w.my6[15]])),
            ('xfam-sn6', bytes([0x33, 0x33, 0xff]) + w.my4[1:4]),
            ('mc4-second', bytes([1, 0, 0x5e, w.my4b[1] & 0x7f, w.my4b[2], w.my4b[3]])),
            ('sn6-second', bytes([0x33, 0x33, 0xff]) + w.my6b[13:16])]


def csum_stress(rng):
    """echo bodies (identifier, sequence, data) that stress the ones-complement arithmetic: all-ones words (multiple
    carries), odd lengths, large random payloads up to the MTU"""
    k = rng.below(8)
    if k == 0:
        return b'\xff' * rng.choice([4, 6, 7, 8, 64, 65, 1000, 1472])
    if k == 1:
        return b'\xff\xff\xff\xff' + rng.choice([b'\x00\x01', b'\x00\x02', b'\x01', b'\xff\xfe', b''])
    if k == 2:
        return rng.bytes(rng.choice([1000, 1399, 1464, 1465, 1471, 1472, 1473, 1475, 1476]))
    if k == 3:
        return (b'\xff\xfe' * 300)[:rng.choice([8, 9, 600, 599])]
    return rng.bytes(rng.choice([0, 4, 8, 13, 56, rng.below(100)]))


def gen_l4(rng, w, v6, proto):
    """L4 bytes for a protocol number (well-formed-ish)."""
    s, d = w.addrs(v6)
    if proto == 6:
        sport, dport = rng.u16(), rng.u16()
        kind = rng.below(8)
        seq = rng.u32()
        if kind == 0:
            flags = rng.choice([0x02, 0x02, 0x0a, 0x22, 0x42, 0x82, 0xc2, 0x12, 0x03, rng.below(512) | 2])
            return tcp(sport, dport, seq, rng.u32(), flags, rng.bytes(rng.below(4)), src=s, dst=d)
        if kind == 1:
            return tcp(sport, dport, seq, rng.u32(), rng.choice([0x10, 0x04, 0x11, 0x01, 0x14, rng.below(512)]), src=s, dst=d)
        ck = w.cookie(s, d, sport, dport)
        ack = (ck + rng.choice([1, 1, 1, 0, 2, 0x80000000])) & 0xffffffff
        _, _, pl = gen_app(rng, tcp=True)
        opts = b''
        doff = 5
        if rng.chance(1, 6):
            opts = rng.bytes(4 * rng.below(4))
            doff = 5 + len(opts) // 4
        if rng.chance(1, 12):
            doff = rng.below(16)
        return tcp(sport, dport, seq, ack, rng.choice([0x18, 0x18, 0x18, 0x19, 0x1a, 0x38, 0x118]), pl, doff=doff, opts=opts, src=s, dst=d)
    if proto == 17:
        _, _, pl = gen_app(rng, tcp=False)
        ln = None
        if rng.chance(1, 8):
            ln = rng.u16()
        return udp(rng.u16(), rng.u16(), pl, length=ln, src=s, dst=d)
    if proto == 1:
        ty = rng.choice([8, 8, 8, 0, 3, 13, rng.below(256)])
        code = rng.choice([0, 0, 0, 1, rng.below(256)])
        return icmp(ty, code, csum_stress(rng))
    if proto == 58:
        ty = rng.choice([128, 128, 135, 135, 129, 136, 133, rng.below(256)])
        code = rng.choice([0, 0, 0, 1, rng.below(256)])
        if ty == 135:
            tgt = rng.choice([w.my6, w.my6, w.my6b, w.other6, rng.bytes(16)])
            opt = rng.choice([b'', bytes([1, 1]) + w.cl_mac, bytes([1, 32]) + rng.bytes(6), bytes([1, 0]) + rng.bytes(6), rng.bytes(rng.below(20))])
            rest = bytes(4) + tgt + opt
            if rng.chance(1, 6):
                rest = rest[:rng.below(len(rest) + 1)]
            return icmp6(ty, code, rest, s, d)
        return icmp6(ty, code, csum_stress(rng), s, d)
    return rng.bytes(rng.below(40))


def gen_frame(rng, w):
    """A diverse frame for world w: (tags, frame)."""
    tags, f = gen_frame0(rng, w)
    if len(f) >= 12 and rng.chance(1, 12):
        # unusual source MACs: the responder's own, broadcast, all-zero, a multicast group
        f = f[:6] + rng.choice([w.mac, w.mac, BCAST, bytes(6), bytes.fromhex('01005e000001')]) + f[12:]
        tags.append('smac-special')
    return tags, f


def gen_frame0(rng, w):
    tags = []
    cls, dmac = rng.choice(dst_macs(rng, w)[:1] * 6 + dst_macs(rng, w))
    tags.append('dmac:' + cls)
    kind = rng.below(20)
    if kind == 0:
        tags.append('runt')
        return tags, rng.bytes(rng.below(14))
    if kind <= 2:
        tags.append('arp')
        op = rng.choice([1, 1, 1, 2, 0, 3, 4, 65535])
        tpa = rng.choice([w.my4, w.my4, w.other4, rng.bytes(4)])
        a = arp(op, w.cl_mac, rng.choice([w.cl4, w.cl4, w.cl4, w.bad4, w.my4]), rng.choice([bytes(6), rng.bytes(6)]), tpa,
                htype=rng.choice([1, 1, 1, 6, 0]), ptype=rng.choice([0x0800, 0x0800, 0x86dd]),
                hlen=rng.choice([6, 6, 6, 8]), plen=rng.choice([4, 4, 4, 16]), pad=rng.bytes(rng.choice([0, 0, 18, rng.below(30)])))
        if rng.chance(1, 8):
            a = a[:rng.below(len(a) + 1)]
        if cls == 'own' and rng.chance(1, 2):
            dmac = BCAST
        return tags, eth(dmac, w.cl_mac, 0x0806, a)
    if kind == 3:
        tags.append('ety-other')
        return tags, eth(dmac, w.cl_mac, rng.choice([0x8100, 0x88cc, 0x0805, 0x0807, 0x86de, 0, 0xffff, rng.below(65536)]), rng.bytes(rng.below(60)))
    v6 = rng.chance(1, 2)
    tags.append('v6' if v6 else 'v4')
    proto = rng.choice([6, 6, 6, 17, 17, 17, 58 if v6 else 1, 58 if v6 else 1, 1 if v6 else 58, rng.choice([0, 2, 41, 47, 50, 132, 255, rng.below(256)])])
    tags.append('proto:%d' % proto)
    l4 = gen_l4(rng, w, v6, proto)
    src = rng.choice([None, None, None, None, w.bad6 if v6 else w.bad4])
    src_self = None
    if rng.chance(1, 16):
        # the source is itself a handled address (the second one, or the very address the packet is sent to)
        src_self = rng.choice([w.my6b, w.my6] if v6 else [w.my4b, w.my4])
    dst = rng.choice([None, None, None, None, w.other6 if v6 else w.other4, w.my6b if v6 else w.my4b])
    group = None
    if rng.chance(1, 12):
        # group / broadcast destinations: never a handled address, whatever the self-IP list
        if v6:
            group = rng.choice([bytes.fromhex('ff020000000000000000000000000001'),
                                bytes.fromhex('ff0200000000000000000001ff') + w.my6[13:16],
                                bytes.fromhex('ff020000000000000000000000000002')])
        else:
            group = rng.choice([bytes([224, 0, 0, 1]), bytes([255, 255, 255, 255]), w.my4[:3] + b'\xff'])
        dst = group
    if src is not None:
        tags.append('src-denied')
    elif src_self is not None:
        src = src_self
        tags.append('src-self')
    if group is not None:
        tags.append('dst-group')
    elif dst is not None:
        tags.append('dst-foreign' if dst in (w.other4, w.other6) else 'dst-second-self')
    if v6:
        plen = None
        if rng.chance(1, 10):
            plen = rng.choice([0, len(l4) - 1, len(l4) + 1, 65535, rng.below(max(1, len(l4)))])
            tags.append('lying-len')
        p = ipv6(src or w.cl6, dst or w.my6, proto, l4, plen=plen, hlim=rng.choice([64, 1, 0, 255]))
        if cls == 'own' and proto == 58 and rng.chance(1, 3):
            dmac = bytes([0x33, 0x33, 0xff]) + w.my6[13:16]
        f = eth(dmac, w.cl_mac, 0x86dd, p)
    else:
        ihl, total, opts = 5, None, b''
        if rng.chance(1, 10):
            opts = rng.bytes(4 * (1 + rng.below(3)))
            ihl = 5 + len(opts) // 4
            tags.append('ip-opts')
        if rng.chance(1, 12):
            ihl = rng.below(16)
            tags.append('lying-ihl')
        if rng.chance(1, 10):
            total = rng.choice([0, 19, 20, 20 + len(l4) - 1, 20 + len(l4) + 1, 65535])
            tags.append('lying-len')
        p = ipv4(src or w.cl4, dst or w.my4, proto, l4, ihl=ihl, total=total, opts=opts,
                 flags_frag=rng.choice([0, 0, 0x4000, 0x2000, 0x00b9]), ttl=rng.choice([64, 1, 0, 255]))
        f = eth(dmac, w.cl_mac, 0x0800, p)
    if rng.chance(1, 12):
        f = f[:rng.below(len(f) + 1)]
        tags.append('truncated')
    if rng.chance(1, 15):
        f = mutate(rng, f)
        tags.append('mutated')
    if len(f) < 60 and rng.chance(1, 4):
        f = f + bytes(60 - len(f))            # padded to the Ethernet minimum
        tags.append('eth-padded')
    elif rng.chance(1, 20):
        f = f + rng.bytes(1 + rng.below(8))   # stray trailer
        tags.append('eth-trailer')
    return tags, f
