#!/bin/sh
# intake.sh <round-dir> <suffix> [Cxx ...] : take seeded changes written by sub-agents in <round-dir>/<Cxx>/{repo,out}:
#   1. re-confirm each in its scratch worktree (demo alone passes, patch alone keeps the 93 tests green, patch+demo fails),
#   2. store it as /verif/seeded/<Cxx><suffix>/ (patch.diff, demo.diff, README.md, meta.json with detection TBD),
#   3. remove the scratch worktree,
#   4. run the property's quick check against the patch applied to /repo (and undo it).
base=$1; suf=$2; shift 2
ids=${*:-$(ls $base | grep -E '^C[0-9][0-9]$')}
export SEED_TARGET=$base/target
for id in $ids; do
  [ -f $base/$id/out/patch.diff ] || { echo "$id: no patch.diff"; continue; }
  res=$(sh /verif/harness/confirm_seed.sh $id $base 2>&1 | tail -3)
  d1=$(echo "$res" | grep demo-only | grep -c " ok\. "); p1=$(echo "$res" | grep patch-only | grep -c "ok\. 93 passed"); b1=$(echo "$res" | grep "patch+demo" | grep -c FAILED)
  if [ "$d1$p1$b1" != "111" ]; then echo "$id: NOT CONFIRMED"; echo "$res"; continue; fi
  d=/verif/seeded/$id$suf; mkdir -p $d
  cp $base/$id/out/patch.diff $base/$id/out/demo.diff $base/$id/out/README.md $d/
  python3 - "$id" "$suf" "$base" <<'PY'
import json,sys
pid,suf,base=sys.argv[1:]
json.dump({'property':pid,'breaks':pid,'round':{'b':2,'c':3,'d':4,'e':5,'f':6,'g':7,'h':8,'i':9,'j':10}.get(suf,0),'needs_to_manifest':'see README.md',
           'confirmed':'harness/confirm_seed.sh %s %s in a scratch worktree: demo alone passes, patch alone 93 tests pass, patch+demo fails'%(pid,base),
           'ran':'harness/seedrun.sh /verif/seeded/%s%s/patch.diff %s'%(pid,suf,pid),'detection':'TBD'},open('/verif/seeded/%s%s/meta.json'%(pid,suf),'w'),indent=1)
PY
  git -C /repo worktree remove --force $base/$id/repo 2>/dev/null
  if [ -n "$NO_RUN" ]; then echo "$id$suf: confirmed and stored"; continue; fi
  out=$(sh /verif/harness/seedrun.sh $d/patch.diff $id 2>&1)
  echo "$id$suf: confirmed; $(echo "$out" | grep -E 'rc=' | head -1) violations=$(echo "$out" | grep -c '^VIOLATION') nf=$(echo "$out" | grep -c no-failing)"
done
rm -rf $base/target
