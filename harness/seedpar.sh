#!/bin/sh
# seedpar.sh [workers] [seed dirs...] : every stored seeded change against its own property's quick check, in parallel.
#   Each worker has its own scratch worktree of /repo, its own cargo target directory and its own copy of the Lean project
#   (under /tmp/seedpar/<k>; the regenerated Gen/*.lean differ between seeds that touch the matcher tables), so /repo and
#   /verif/lean are left alone. Evidence is not written. Result: one line per seed in /verif/.build/seedpar.log.
N=${1:-6}; [ $# -gt 0 ] && shift
seeds=${*:-$(ls -d /verif/seeded/C*)}
W=/tmp/seedpar
rm -rf $W; mkdir -p $W
: > /verif/.build/seedpar.log
i=0
for d in $seeds; do
  k=$((i % N)); i=$((i + 1)); echo "$d" >> $W/list.$k
done
for k in $(seq 0 $((N - 1))); do
  [ -f $W/list.$k ] || continue
  (
    mkdir -p $W/$k
    git -C /repo worktree add --detach $W/$k/repo HEAD -q 2>/dev/null
    cp -r /verif/lean $W/$k/lean
    mkdir -p $W/$k/build
    cp /verif/.build/timeshim.so $W/$k/build/ 2>/dev/null
    for d in $(cat $W/list.$k); do
      n=$(basename $d)
      if python3 -c "import json,sys; sys.exit(0 if json.load(open('$d/meta.json')).get('obsolete') else 1)"; then echo "$n obsolete (skipped)" >> /verif/.build/seedpar.log; continue; fi
      p=$(python3 -c "import json,sys; m=json.load(open(sys.argv[1])); print(m.get('caught_by') or m['property'])" $d/meta.json)
      git -C $W/$k/repo apply $d/patch.diff 2>/dev/null || { echo "$n: patch does not apply" >> /verif/.build/seedpar.log; continue; }
      out=$(cd /verif && VERIF_SEED=${SEEDPAR_SEED:-1} VERIF_REPO=$W/$k/repo VERIF_BUILD=$W/$k/build VERIF_LEAN=$W/$k/lean VERIF_NO_EVIDENCE=1 ./check $p --tier quick 2>&1); rc=$?
      nv=$(echo "$out" | grep -c "^VIOLATION"); nf=$(echo "$out" | grep -c "no-failing-input-found")
      echo "$n ($p) rc=$rc violations=$nv (no-failing-input-found: $nf)" >> /verif/.build/seedpar.log
      git -C $W/$k/repo checkout -- . ; git -C $W/$k/repo clean -qfd src
    done
    git -C /repo worktree remove --force $W/$k/repo
    rm -rf $W/$k
  ) &
done
wait
sort /verif/.build/seedpar.log
