#!/usr/bin/env python3
"""check <Cxx> [--tier quick|thorough] [--replay file]

One property per invocation:
  1. build /repo's working tree with the hook guard on,
  2. regenerate the translated artefacts (Gen/*.lean) from the running code, build the
     property's theorems (Thm/Cxx) and the model driver, audit axioms,
  3. correspondence: same ops to the implementation and to the compiled Lean model, compare
     the property's projection,
  4. judge: the Spec predicates (the ones the theorems are stated with) on the implementation's
     real outputs,
  5. evidence + exit status (see DESIGN.md §2.3).
"""
import argparse
import hashlib
import json
import os
import subprocess
import sys
import time

sys.path.insert(0, os.path.dirname(os.path.abspath(__file__)))
from lib import *   # noqa
import props

LEAN = os.path.join(VERIF, 'lean')
EVID = os.path.join(VERIF, 'evidence')
REPLAYS = os.path.join(VERIF, 'replays')
KNOWN = os.path.join(VERIF, 'known_findings.json')
ALLOWED_AXIOMS = {'propext', 'Classical.choice', 'Quot.sound'}


def sh(cmd, cwd=None, env=None, timeout=7200):
    e = dict(os.environ)
    e.update({'CARGO_NET_OFFLINE': 'true'})
    if env:
        e.update(env)
    p = subprocess.run(cmd, cwd=cwd, env=e, stdout=subprocess.PIPE, stderr=subprocess.STDOUT, timeout=timeout)
    return p.returncode, p.stdout.decode('utf-8', 'replace')


def build_impl(release=False):
    cmd = ['cargo', 'build', '--offline', '--target-dir', os.path.join(BUILD, 'cargo')]
    if release:
        cmd.append('--release')
    rc, out = sh(cmd, cwd='/repo', env={'RUSTFLAGS': '--cfg masscanned_verif'})
    return rc, out


def regenerate():
    """dump the compiled matchers / Gh0st reply from the implementation, translate to Lean.
    Returns (ok, info). Also validates the translator by round trip (model driver reads the table back)."""
    blocks, rc, err, partial = run_impl([('C', default_cfg()), ('D', 'proto'), ('D', 'http'),
                                         ('A', 'udp', ip4('1.2.3.4'), ip4('10.0.0.1'), 1, 2, None, b'Gh0st')])
    if rc != 0 or len(blocks) != 4:
        return False, 'dump failed: rc=%s %s' % (rc, err[:300])
    info = {}
    for name, blk, lean in (('proto', blocks[1], 'ProtoSmack'), ('http', blocks[2], 'HttpSmack')):
        path = os.path.join(BUILD, name + '.dump')
        open(path, 'w').write('\n'.join(blk['log']) + '\n')
        rc, out = sh([sys.executable, os.path.join(VERIF, 'harness', 'gen_lean.py'), 'smack', lean, path,
                      os.path.join(LEAN, 'Masscanned', 'Gen', lean + '.lean')])
        if rc != 0:
            return False, 'translator failed on %s: %s' % (name, out[-400:])
        info[name + '_dump_sha'] = hashlib.sha256(open(path, 'rb').read()).hexdigest()[:16]
    ghost = blocks[3]['r'].split()[0]
    rc, out = sh([sys.executable, os.path.join(VERIF, 'harness', 'gen_lean.py'), 'ghost', ghost,
                  os.path.join(LEAN, 'Masscanned', 'Gen', 'GhostBlob.lean')])
    if rc != 0:
        return False, 'translator failed on ghost: ' + out[-300:]
    info['ghost_reply'] = ghost
    return True, info


def lake_build(targets):
    rc, out = sh(['lake', 'build'] + targets, cwd=LEAN, timeout=3600)
    return rc, out


def theorem_names(prop):
    path = os.path.join(LEAN, 'Masscanned', 'Thm', prop + '.lean')
    if not os.path.exists(path):
        return []
    names = []
    ns = []
    for line in open(path):
        t = line.strip()
        if t.startswith('namespace '):
            ns.append(t.split()[1])
        elif t.startswith('end ') and ns and t.split()[1] == ns[-1].split('.')[-1]:
            ns.pop()
        elif line.startswith('theorem '):
            n = t.split()[1].split('(')[0].split(':')[0].strip()
            names.append('.'.join(ns + [n]))
    return names


def audit(prop):
    """#print axioms on every theorem of Thm/<prop>; forbidden-token grep. -> (ok, details)"""
    names = theorem_names(prop)
    details = {'theorems': names, 'axioms': {}, 'forbidden': []}
    if not names:
        return False, details
    src = 'import Masscanned.Thm.%s\n' % prop + ''.join('#print axioms %s\n' % n for n in names)
    path = os.path.join(BUILD, 'Audit_%s.lean' % prop)
    open(path, 'w').write(src)
    rc, out = sh(['lake', 'env', 'lean', path], cwd=LEAN)
    ok = rc == 0
    for line in out.split('\n'):
        line = line.strip()
        if not line.startswith("'"):
            continue
        if "' depends on axioms: [" in line:
            name, rest = line[1:].rsplit("' depends on axioms: [", 1)
            ax = [a.strip() for a in rest.rstrip(']').split(',') if a.strip()]
        elif "' does not depend on any axioms" in line:
            name, ax = line[1:].rsplit("' does not depend on any axioms", 1)[0], []
        else:
            continue
        details['axioms'][name] = ax
        if not set(ax) <= ALLOWED_AXIOMS:
            ok = False
    if len(details['axioms']) != len(names):
        ok = False
        details['audit_output'] = out[-800:]
    # forbidden tokens in the proof sources
    for root in ('Thm', 'Proofs', 'Model', 'Spec'):
        d = os.path.join(LEAN, 'Masscanned', root)
        for fn in sorted(os.listdir(d)) if os.path.isdir(d) else []:
            if not fn.endswith('.lean'):
                continue
            incomment = False
            for i, line in enumerate(open(os.path.join(d, fn)), 1):
                code = line
                if '/-' in code and '-/' not in code:
                    incomment = True
                    continue
                if incomment:
                    if '-/' in code:
                        incomment = False
                    continue
                code = code.split('--')[0]
                for tok in ('sorry', 'admit', 'native_decide', 'bv_decide', 'implemented_by', 'maxHeartbeats 0'):
                    if tok in code:
                        details['forbidden'].append('%s/%s:%d %s' % (root, fn, i, tok))
                if code.lstrip().startswith('axiom ') or code.lstrip().startswith('unsafe '):
                    details['forbidden'].append('%s/%s:%d axiom/unsafe' % (root, fn, i))
    if details['forbidden']:
        ok = False
    return ok, details


def load_known():
    try:
        return json.load(open(KNOWN))['findings']
    except FileNotFoundError:
        return []


def write_replay(prop, payload):
    os.makedirs(REPLAYS, exist_ok=True)
    h = hashlib.sha256(json.dumps(payload, sort_keys=True).encode()).hexdigest()[:12]
    path = os.path.join(REPLAYS, '%s-%s.json' % (prop, h))
    json.dump(payload, open(path, 'w'), indent=1)
    return path


def run_judge(prop, lines):
    text, rc, err = run_driver([MDRIVER, 'judge', prop], lines)
    return [l for l in text.split('\n') if l.startswith('V ')], rc, err


def main():
    ap = argparse.ArgumentParser()
    ap.add_argument('prop')
    ap.add_argument('--tier', default=os.environ.get('VERIF_TIER', 'quick'))
    ap.add_argument('--replay')
    args = ap.parse_args()
    prop = args.prop
    tier = args.tier if args.tier in ('quick', 'thorough') else 'quick'
    seed = int(os.environ.get('VERIF_SEED', '1'))
    t0 = time.time()
    os.makedirs(EVID, exist_ok=True)
    os.makedirs(BUILD, exist_ok=True)
    pd = props.PROPS[prop]
    ev = {'property_id': prop, 'tier': tier, 'seed': seed, 'level': 'proof', 'coverage': {}, 'assumptions': [],
          'wall_s': 0.0, 'violations': 0}
    violations = []      # (replay path, suffix)
    known_lines = []

    def finish():
        ev['wall_s'] = round(time.time() - t0, 2)
        ev['violations'] = len(violations)
        json.dump(ev, open(os.path.join(EVID, prop + '.json'), 'w'), indent=1)
        for l in known_lines:
            print(l)
        for path, suffix in violations:
            print('VIOLATION property=%s replay=%s%s' % (prop, path, suffix))
        sys.stdout.flush()
        sys.exit(1 if violations else 0)

    # 1. build the implementation
    rc, out = build_impl(False)
    if rc != 0:
        path = write_replay(prop, {'stage': 'cargo build', 'output': out[-3000:]})
        violations.append((path, ' no-failing-input-found'))
        ev['coverage'] = {'evaluations': 0, 'explanation': 'implementation does not build with the hook guard'}
        finish()
    if tier == 'thorough' and pd.get('release'):
        rc, out = build_impl(True)
    # 2. translate + prove
    ok, info = regenerate()
    if not ok:
        path = write_replay(prop, {'stage': 'translator', 'output': str(info)})
        violations.append((path, ' no-failing-input-found'))
        finish()
    targets = ['mdriver']
    has_thm = os.path.exists(os.path.join(LEAN, 'Masscanned', 'Thm', prop + '.lean'))
    if has_thm:
        targets.append('Masscanned.Thm.' + prop)
    rc, out = lake_build(targets)
    proof_ok = rc == 0
    proof_out = out
    if not proof_ok:
        # the model driver is needed below; try to build it alone
        rc2, out2 = lake_build(['mdriver'])
        if rc2 != 0:
            path = write_replay(prop, {'stage': 'lake build mdriver', 'output': out2[-3000:]})
            violations.append((path, ' no-failing-input-found'))
            finish()
    aud_ok, aud = (audit(prop) if (has_thm and proof_ok) else (False, {'theorems': theorem_names(prop), 'axioms': {}, 'forbidden': []}))
    nthm = len(aud['theorems'])
    discharged = len([n for n in aud['theorems'] if n in aud['axioms'] and set(aud['axioms'][n]) <= ALLOWED_AXIOMS]) if proof_ok else 0
    if tier == 'thorough' and has_thm and proof_ok:
        rc, out = sh(['lake', 'env', 'leanchecker', 'Masscanned.Thm.' + prop], cwd=LEAN)
        ev['coverage']['leanchecker_rc'] = rc
        if rc != 0:
            aud_ok = False
    # 3-5. exploration: correspondence + judge
    res = props.explore(prop, pd, tier, seed, replay=args.replay)
    cov = ev['coverage']
    cov.update(res['coverage'])
    cov['obligations'] = max(nthm, 1)
    cov['discharged'] = discharged if (proof_ok and aud_ok) else min(discharged, max(nthm - 1, 0))
    cov['checker_cmd'] = 'cd /verif/lean && lake build Masscanned.Thm.%s && lake env lean <#print axioms of every theorem>' % prop
    cov['trusted_base'] = ['Lean 4.33 kernel', 'axioms: ' + ', '.join(sorted({a for l in aud['axioms'].values() for a in l}) or ['none']),
                           'translator harness/gen_lean.py + verif_dump() hook (Gen/*.lean)',
                           'correspondence check (harness, cfg-guarded driver src/verif.rs)',
                           'hand-written Model/*.lean tied to the code by differential testing only'] + pd.get('trusted', [])
    cov['theorems'] = aud['theorems']
    cov['translated'] = info
    ev['assumptions'] = pd.get('assumptions', [])
    known = [k for k in load_known() if k.get('property') == prop and k.get('status') == 'known']
    for v in res['violations']:
        kf = props.classify_known(prop, v, known)
        if kf:
            line = 'KNOWN-FINDING: property=%s %s' % (prop, kf['what'])
            if line not in known_lines:
                known_lines.append(line)
            continue
        path = write_replay(prop, v)
        violations.append((path, ''))
        if len(violations) >= 5:
            break
    cov['known_findings_hit'] = len(known_lines)
    if not violations:
        broken = None
        if has_thm and not proof_ok:
            broken = {'stage': 'proof', 'what': 'lake build Masscanned.Thm.%s failed' % prop, 'output': proof_out[-3000:]}
        elif has_thm and not aud_ok:
            broken = {'stage': 'audit', 'what': 'axiom / forbidden-token audit failed', 'details': aud}
        elif res.get('disagreements'):
            broken = {'stage': 'correspondence', 'what': 'model and implementation disagree on the projection of %s' % prop,
                      'cases': res['disagreements'][:5]}
        if broken:
            # the focused search already ran inside explore(); nothing judged as failing was found
            path = write_replay(prop, broken)
            violations.append((path, ' no-failing-input-found'))
    finish()


if __name__ == '__main__':
    main()
