#!/usr/bin/env python3
"""check <Cxx> [--tier quick|thorough] [--replay file]

One property per invocation:
  1. build /repo's working tree with the hook guard on,
  2. regenerate the translated artefacts (Gen/*.lean) from the running code, build the
     property's theorems (Thm/Cxx) and the model driver, audit axioms,
  3. correspondence: same ops to the implementation and to the compiled Lean model, compare
     the property's projection,
  4. judge: the Spec predicates (the ones the theorems are stated with) on the implementation's
     real outputs,
  5. evidence + exit status (see DESIGN.md §2.3).
"""
import argparse
import hashlib
import json
import os, struct
import subprocess
import sys
import time

sys.path.insert(0, os.path.dirname(os.path.abspath(__file__)))
from lib import *   # noqa
import props

LEAN = LEAN_DIR
EVID = os.path.join(VERIF, 'evidence')
REPLAYS = os.path.join(VERIF, 'replays')
KNOWN = os.path.join(VERIF, 'known_findings.json')
ALLOWED_AXIOMS = {'propext', 'Classical.choice', 'Quot.sound'}


def sh(cmd, cwd=None, env=None, timeout=7200):
    e = dict(os.environ)
    e.update({'CARGO_NET_OFFLINE': 'true'})
    if env:
        e.update(env)
    p = subprocess.run(cmd, cwd=cwd, env=e, stdout=subprocess.PIPE, stderr=subprocess.STDOUT, timeout=timeout)
    return p.returncode, p.stdout.decode('utf-8', 'replace')


def build_impl(release=False):
    shim = os.path.join(BUILD, 'timeshim.so')
    src = os.path.join(VERIF, 'harness', 'timeshim.c')
    if not os.path.exists(shim) or os.path.getmtime(shim) < os.path.getmtime(src):
        sh(['cc', '-shared', '-fPIC', '-O2', '-o', shim, src, '-ldl'])
    cmd = ['cargo', 'build', '--offline', '--target-dir', os.path.join(BUILD, 'cargo')]
    if release:
        cmd.append('--release')
    rc, out = sh(cmd, cwd=REPO, env={'RUSTFLAGS': '--cfg masscanned_verif'})
    return rc, out


def regenerate():
    """dump the compiled matchers / Gh0st reply from the implementation, translate to Lean.
    Returns (ok, info). Also validates the translator by round trip (model driver reads the table back)."""
    blocks, rc, err, partial = run_impl([('C', default_cfg()), ('D', 'proto'), ('D', 'http'),
                                         ('A', 'udp', ip4('1.2.3.4'), ip4('10.0.0.1'), 1, 2, None, b'Gh0st'),
                                         ('D', 'names'),
                                         ('A', 'udp', ip4('1.2.3.4'), ip4('10.0.0.1'), 1, 2, None, b'GET / HTTP/1.1\r\n\r\n'),
                                         ('A', 'udp', ip4('1.2.3.4'), ip4('10.0.0.1'), 1, 111, None,
                                          struct.pack('>IIIIIIIIII', 0x11223344, 0, 2, 100000, 3, 4, 0, 0, 0, 0)),
                                         # further Gh0st probes: the reply blob is data for the translator whichever probe yields it
                                         # (whether *every* Gh0st payload is answered is the exploration's question, not the translator's)
                                         ('A', 'udp', ip4('1.2.3.4'), ip4('10.0.0.1'), 1, 2, None, b'Gh0st' + bytes(8)),
                                         ('A', 'udp', ip4('1.2.3.4'), ip4('10.0.0.1'), 1, 2, None, b'Gh0st' + bytes(range(64))),
                                         ('A', 'tcp', ip4('1.2.3.4'), ip4('10.0.0.1'), 1, 2, 0x7fff0001, b'Gh0st' + bytes(range(64)))])
    if rc != 0 or len(blocks) != 10:
        return False, 'dump failed: rc=%s %s' % (rc, err[:300])
    for alt in (7, 8, 9):
        if (blocks[3]['r'] or '-').split()[0] in ('-', 'PANIC'):
            blocks[3] = blocks[alt]
    # free text of the HTTP 401 response and of the rpcbind DUMP entries, from real replies
    rc, out = sh([sys.executable, os.path.join(VERIF, 'harness', 'gen_lean.py'), 'texts', blocks[5]['r'].split()[0], blocks[6]['r'].split()[0],
                  os.path.join(LEAN, 'Masscanned', 'Gen', 'Texts.lean')])
    if rc != 0:
        return False, 'translator failed on the reply texts (HTTP 401 / rpcbind DUMP): ' + out[-400:]
    npath = os.path.join(BUILD, 'names.dump')
    open(npath, 'w').write('\n'.join(blocks[4]['log']) + '\n')
    rc, out = sh([sys.executable, os.path.join(VERIF, 'harness', 'gen_lean.py'), 'names', npath,
                  os.path.join(LEAN, 'Masscanned', 'Gen', 'LogNames.lean')])
    if rc != 0:
        return False, 'translator failed on the Display name tables: ' + out[-400:]
    info = {}
    for name, blk, lean in (('proto', blocks[1], 'ProtoSmack'), ('http', blocks[2], 'HttpSmack')):
        path = os.path.join(BUILD, name + '.dump')
        open(path, 'w').write('\n'.join(blk['log']) + '\n')
        rc, out = sh([sys.executable, os.path.join(VERIF, 'harness', 'gen_lean.py'), 'smack', lean, path,
                      os.path.join(LEAN, 'Masscanned', 'Gen', lean + '.lean')])
        if rc != 0:
            return False, 'translator failed on %s: %s' % (name, out[-400:])
        info[name + '_dump_sha'] = hashlib.sha256(open(path, 'rb').read()).hexdigest()[:16]
    ghost = blocks[3]['r'].split()[0]
    rc, out = sh([sys.executable, os.path.join(VERIF, 'harness', 'gen_lean.py'), 'ghost', ghost,
                  os.path.join(LEAN, 'Masscanned', 'Gen', 'GhostBlob.lean')])
    if rc != 0:
        return False, 'translator failed on ghost: ' + out[-300:]
    info['ghost_reply'] = ghost
    info['_dumps'] = {n: os.path.join(BUILD, n + '.dump') for n in ('proto', 'http')}
    ok, why = regenerate_annotations(info['proto_dump_sha'] + info['http_dump_sha'])
    if not ok:
        return False, why
    return True, info


def regenerate_annotations(tag):
    """Row annotations (untrusted witnesses of the kernel-checked closure proofs of C10) are recomputed by
    lean/GenAnn.lean whenever a compiled matcher table changed."""
    gen = os.path.join(LEAN, 'Masscanned', 'Gen')
    pa, ha = os.path.join(gen, 'ProtoAnn.lean'), os.path.join(gen, 'HttpAnn.lean')
    head = '-- tables: %s\n' % tag
    try:
        if open(pa).readline() == head and open(ha).readline() == head:
            return True, ''
    except FileNotFoundError:
        pass
    rc, out = sh(['lake', 'build', 'Masscanned.Proofs.C10.Check', 'Masscanned.Proofs.C10.HttpLang', 'Masscanned.Model.Dispatch'], cwd=LEAN)
    if rc != 0:
        return False, 'cannot build the annotation generator: ' + out[-600:]
    rc, out = sh(['lake', 'env', 'lean', '--run', 'GenAnn.lean'], cwd=LEAN)
    vals = dict(l.split(' ', 1) for l in out.splitlines() if l.startswith(('PROTO ', 'HTTP ')))
    if rc != 0 or 'PROTO' not in vals or 'HTTP' not in vals:
        return False, 'annotation generator failed: ' + out[-600:]
    for path, name, key in ((pa, 'annN', 'PROTO'), (ha, 'annH', 'HTTP')):
        open(path, 'w').write(head + '-- GENERATED by lean/GenAnn.lean (untrusted witness, re-checked by the kernel in Proofs/C10). DO NOT EDIT.\n'
                              'namespace Masscanned.C10\ndef %s : Nat := %s\nend Masscanned.C10\n' % (name, vals[key].strip()))
    return True, ''


def compile_correspondence(seed, n):
    """The hand-written model of `Smack::compile` (Model/SmackCompile.lean) against the code: (1) the table the model computes
    from the registered patterns equals the dumped table (mdriver compile-check), (2) the real `Smack::compile` (Y op) and the
    model compile the same generated pattern sets and print the same dump. No theorem depends on this part of the model (they are
    stated over the dumped tables): a difference is recorded as drift of the compile model, it is not a verdict on C10."""
    from lib import Rng, run_impl, parse_blocks
    out = {}
    text, rc, err = run_driver([MDRIVER, 'compile-check'], [])
    out['registered_patterns'] = [l for l in text.splitlines() if l.strip()]
    out['registered_patterns_agree'] = rc == 0
    rng = Rng(seed * 7919 + 10)
    alph = [b'GET', b'PUT', b'\x00', b'\x01', b'*', b'a', b'b', b'A', b'ab', b'S', b'\xff', b'\x80']
    lines = []
    for _ in range(n):
        pats = []
        for pid in range(1 + rng.below(6)):
            b = b''.join(rng.choice(alph) for _ in range(1 + rng.below(5)))
            if rng.chance(1, 6):
                b += rng.bytes(1 + rng.below(3))
            flags = rng.choice([0, 1, 1, 5, 5, 4, 2, 3, 7, 6])
            pats.append('%d:%d:%s' % (rng.choice([pid, pid, rng.below(4)]), flags, b.hex()))
        lines.append('Y %d %s' % (rng.below(2), ','.join(pats)))
    itext, irc, ierr = run_driver([IMPL_BIN], ['C mac=c0ffeec0ffee self=- deny=- key=0,0 logger=none level=off'] + lines, env={'MASSCANNED_VERIF': '1'}, timeout=300)
    mtext, mrc, merr = run_driver([MDRIVER, 'compile'], lines, timeout=300)

    def blocks(t):
        res, cur = [], None
        for l in t.split('\n'):
            if l == '@@B':
                cur = []
            elif l == '@@E' and cur is not None:
                res.append([x for x in cur if not x.startswith(('name ', '@@T'))])
                cur = None
            elif cur is not None:
                cur.append(l)
        return res
    ib, mb = blocks(itext)[1:], blocks(mtext)
    agree = sum(1 for a, b in zip(ib, mb) if a == b)
    out['generated_pattern_sets'] = len(lines)
    out['generated_agree'] = agree if len(ib) == len(mb) == len(lines) else 0
    panics = sum(1 for a in ib if any(x.startswith('@@R PANIC') for x in a))
    out['generated_sets_on_which_compile_panics'] = panics
    if out['generated_agree'] != len(lines):
        for k, (a, b) in enumerate(zip(ib, mb)):
            if a != b:
                d = [(x, y) for x, y in zip(a, b) if x != y][:2]
                out['first_difference'] = {'op': lines[k], 'lines': [(x[:160], y[:160]) for x, y in d] or [len(a), len(b)]}
                break
    return out


def translator_roundtrip(dumps):
    for name, path in dumps.items():
        text, rc, err = run_driver([MDRIVER, 'dump', name], [])
        want = [l for l in open(path).read().splitlines() if l.startswith(('row ', 'match ', 'char_to_symbol'))]
        got = [l for l in text.splitlines() if l.strip()]
        if sorted(want) != sorted(got):
            bad = [l for l in want if l not in set(got)][:2]
            return 'table %s read back by the Lean model differs from the implementation dump, e.g. %r' % (name, bad)
    return 'ok'


def lake_build(targets):
    rc, out = sh(['lake', 'build'] + targets, cwd=LEAN, timeout=3600)
    return rc, out


def thm_files(prop):
    """Thm/Cxx.lean plus companion files Thm/Cxx<Suffix>.lean (e.g. C01Bound, C10E2E)"""
    d = os.path.join(LEAN, 'Masscanned', 'Thm')
    out = []
    for fn in sorted(os.listdir(d)):
        if fn.endswith('.lean') and fn.startswith(prop) and (len(fn) == len(prop) + 5 or not fn[len(prop)].isdigit()):
            out.append(fn[:-5])
    return out


def theorem_names(prop, only=None):
    names = []
    for mod in ([only] if only else thm_files(prop)):
        path = os.path.join(LEAN, 'Masscanned', 'Thm', mod + '.lean')
        ns = []
        for line in open(path):
            t = line.strip()
            if t.startswith('namespace '):
                ns.append(t.split()[1])
            elif t.startswith('end ') and ns and len(t.split()) > 1 and (t.split()[1] == ns[-1] or ns[-1].endswith('.' + t.split()[1])):
                ns.pop()
            elif line.startswith('theorem '):
                n = t.split()[1].split('(')[0].split(':')[0].strip()
                names.append('.'.join(ns + [n]))
    return names


def audit(prop):
    """#print axioms on every theorem of Thm/<prop>; forbidden-token grep. -> (ok, details)"""
    names = theorem_names(prop)
    details = {'theorems': names, 'axioms': {}, 'forbidden': []}
    if not names:
        return False, details
    ok = True
    outs = []
    # one audit file per theorem module (companion modules may not be importable together)
    for mod in thm_files(prop):
        mnames = theorem_names(prop, only=mod)
        if not mnames:
            continue
        src = 'import Masscanned.Thm.%s\n' % mod + ''.join('#print axioms %s\n' % n for n in mnames)
        path = os.path.join(BUILD, 'Audit_%s.lean' % mod)
        open(path, 'w').write(src)
        rc, out = sh(['lake', 'env', 'lean', path], cwd=LEAN)
        ok = ok and rc == 0
        outs.append(out)
    out = '\n'.join(outs)
    for line in out.split('\n'):
        line = line.strip()
        if not line.startswith("'"):
            continue
        if "' depends on axioms: [" in line:
            name, rest = line[1:].rsplit("' depends on axioms: [", 1)
            ax = [a.strip() for a in rest.rstrip(']').split(',') if a.strip()]
        elif "' does not depend on any axioms" in line:
            name, ax = line[1:].rsplit("' does not depend on any axioms", 1)[0], []
        else:
            continue
        details['axioms'][name] = ax
        if not set(ax) <= ALLOWED_AXIOMS:
            ok = False
    if len(details['axioms']) != len(names):
        ok = False
        details['audit_output'] = out[-800:]
    # forbidden tokens in the proof sources
    for root in ('Thm', 'Proofs', 'Model', 'Spec', 'Gen'):
        top = os.path.join(LEAN, 'Masscanned', root)
        for dirpath, _dirs, files in os.walk(top):
            for fn in sorted(files):
                if not fn.endswith('.lean'):
                    continue
                rel = os.path.relpath(os.path.join(dirpath, fn), os.path.join(LEAN, 'Masscanned'))
                incomment = False
                for i, line in enumerate(open(os.path.join(dirpath, fn)), 1):
                    code = line
                    if incomment:
                        if '-/' in code:
                            incomment = False
                        continue
                    if '/-' in code and '-/' not in code.split('/-', 1)[1]:
                        incomment = True
                        code = code.split('/-', 1)[0]
                    code = code.split('--')[0]
                    for tok in ('sorry', 'admit', 'native_decide', 'bv_decide', 'implemented_by', 'maxHeartbeats 0'):
                        if tok in code:
                            details['forbidden'].append('%s:%d %s' % (rel, i, tok))
                    if code.lstrip().startswith('axiom ') or code.lstrip().startswith('unsafe '):
                        details['forbidden'].append('%s:%d axiom/unsafe' % (rel, i))
    if details['forbidden']:
        ok = False
    return ok, details


def load_known():
    try:
        return json.load(open(KNOWN))['findings']
    except FileNotFoundError:
        return []


def write_replay(prop, payload):
    os.makedirs(REPLAYS, exist_ok=True)
    h = hashlib.sha256(json.dumps(payload, sort_keys=True).encode()).hexdigest()[:12]
    path = os.path.join(REPLAYS, '%s-%s.json' % (prop, h))
    json.dump(payload, open(path, 'w'), indent=1)
    return path


def run_judge(prop, lines):
    text, rc, err = run_driver([MDRIVER, 'judge', prop], lines)
    return [l for l in text.split('\n') if l.startswith('V ')], rc, err


def main():
    ap = argparse.ArgumentParser()
    ap.add_argument('prop')
    ap.add_argument('--tier', default=os.environ.get('VERIF_TIER', 'quick'))
    ap.add_argument('--replay')
    args = ap.parse_args()
    prop = args.prop
    tier = args.tier if args.tier in ('quick', 'thorough') else 'quick'
    seed = int(os.environ.get('VERIF_SEED', '1'))
    t0 = time.time()
    os.makedirs(EVID, exist_ok=True)
    os.makedirs(BUILD, exist_ok=True)
    pd = props.PROPS[prop]
    ev = {'property_id': prop, 'tier': tier, 'seed': seed, 'level': 'proof', 'coverage': {}, 'assumptions': [],
          'wall_s': 0.0, 'violations': 0}
    violations = []      # (replay path, suffix)
    known_lines = []

    def finish():
        ev['wall_s'] = round(time.time() - t0, 2)
        # which tree was checked: commit of /repo and whether its working tree differs from it
        rc1, head = sh(['git', '-C', REPO, 'rev-parse', '--short', 'HEAD'])
        rc2, dirty = sh(['git', '-C', REPO, 'status', '--porcelain', '--untracked-files=no'])
        ev['coverage']['checked_tree'] = {'repo_head': head.strip() if rc1 == 0 else None,
                                          'working_tree_modified': bool(dirty.strip()) if rc2 == 0 else None}
        ev['violations'] = len(violations)
        if not os.environ.get('VERIF_NO_EVIDENCE'):      # measurement runs (harness/coverage.sh) leave the evidence alone
            json.dump(ev, open(os.path.join(EVID, prop + '.json'), 'w'), indent=1)
        for l in known_lines:
            print(l)
        for path, suffix in violations:
            print('VIOLATION property=%s replay=%s%s' % (prop, path, suffix))
        sys.stdout.flush()
        sys.exit(1 if violations else 0)

    # 1. build the implementation
    rc, out = build_impl(False)
    if rc != 0:
        path = write_replay(prop, {'stage': 'cargo build', 'output': out[-3000:]})
        violations.append((path, ' no-failing-input-found'))
        ev['coverage'] = {'evaluations': 0, 'explanation': 'implementation does not build with the hook guard'}
        finish()
    if tier == 'thorough' and pd.get('release'):
        rc, out = build_impl(True)
    # 2. translate + prove
    ok, info = regenerate()
    if not ok:
        path = write_replay(prop, {'stage': 'translator', 'output': str(info)})
        violations.append((path, ' no-failing-input-found'))
        finish()
    targets = ['mdriver']
    has_thm = os.path.exists(os.path.join(LEAN, 'Masscanned', 'Thm', prop + '.lean'))
    if has_thm:
        targets += ['Masscanned.Thm.' + m for m in thm_files(prop)]
    rc, out = lake_build(targets)
    proof_ok = rc == 0
    proof_out = out
    if not proof_ok:
        # the model driver is needed below; try to build it alone
        rc2, out2 = lake_build(['mdriver'])
        if rc2 != 0:
            path = write_replay(prop, {'stage': 'lake build mdriver', 'output': out2[-3000:]})
            violations.append((path, ' no-failing-input-found'))
            finish()
    # translator round trip: the table the Lean side reads back must be the table the implementation dumped
    rt = translator_roundtrip(info.pop('_dumps', {}))
    info['translator_roundtrip'] = rt
    if rt != 'ok':
        path = write_replay(prop, {'stage': 'translator round trip', 'what': rt})
        violations.append((path, ' no-failing-input-found'))
        finish()
    if prop == 'C10':
        cc = compile_correspondence(seed, 300 if tier == 'quick' else 5000)
        info['compile_model'] = cc
        if not cc['registered_patterns_agree'] or cc['generated_agree'] != cc['generated_pattern_sets']:
            print('NOTE: the model of Smack::compile differs from the code (drift of a part of the model no theorem depends on): %s'
                  % (cc.get('first_difference') or cc['registered_patterns']))
    aud_ok, aud = (audit(prop) if (has_thm and proof_ok) else (False, {'theorems': theorem_names(prop), 'axioms': {}, 'forbidden': []}))
    nthm = len(aud['theorems'])
    discharged = len([n for n in aud['theorems'] if n in aud['axioms'] and set(aud['axioms'][n]) <= ALLOWED_AXIOMS]) if proof_ok else 0
    if tier == 'thorough' and has_thm and proof_ok:
        rc, out = sh(['lake', 'env', 'leanchecker', 'Masscanned.Thm.' + prop], cwd=LEAN)
        ev['coverage']['leanchecker_rc'] = rc
        if rc != 0:
            aud_ok = False
    # 3-5. exploration: correspondence + judge
    res = props.explore(prop, pd, tier, seed, replay=args.replay)
    cov = ev['coverage']
    cov.update(res['coverage'])
    cov['obligations'] = max(nthm, 1)
    cov['discharged'] = discharged if (proof_ok and aud_ok) else min(discharged, max(nthm - 1, 0))
    cov['checker_cmd'] = 'cd /verif/lean && lake build Masscanned.Thm.%s && lake env lean <#print axioms of every theorem>' % prop
    cov['trusted_base'] = ['Lean 4.33 kernel', 'axioms: ' + ', '.join(sorted({a for l in aud['axioms'].values() for a in l}) or ['none']),
                           'translator harness/gen_lean.py + verif_dump() hook (Gen/*.lean)',
                           'correspondence check (harness, cfg-guarded driver src/verif.rs)',
                           'hand-written Model/*.lean tied to the code by differential testing only'] + pd.get('trusted', [])
    cov['theorems'] = aud['theorems']
    cov['translated'] = info
    ev['assumptions'] = pd.get('assumptions', [])
    known = [k for k in load_known() if k.get('property') == prop and k.get('status') == 'known']
    for v in res['violations']:
        kf = props.classify_known(prop, v, known)
        if kf:
            line = 'KNOWN-FINDING: property=%s %s' % (prop, kf['what'])
            if line not in known_lines:
                known_lines.append(line)
            continue
        path = write_replay(prop, v)
        violations.append((path, ''))
        if len(violations) >= 5:
            break
    cov['known_findings_hit'] = len(known_lines)
    if not violations:
        broken = None
        if has_thm and not proof_ok:
            broken = {'stage': 'proof', 'what': 'lake build Masscanned.Thm.%s failed' % prop, 'output': proof_out[-3000:]}
        elif has_thm and not aud_ok:
            broken = {'stage': 'audit', 'what': 'axiom / forbidden-token audit failed', 'details': aud}
        elif res.get('disagreements'):
            broken = {'stage': 'correspondence', 'what': 'model and implementation disagree on the projection of %s' % prop,
                      'cases': res['disagreements'][:5]}
        if broken:
            # the focused search already ran inside explore(); nothing judged as failing was found
            path = write_replay(prop, broken)
            violations.append((path, ' no-failing-input-found'))
    finish()


if __name__ == '__main__':
    main()
