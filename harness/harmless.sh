#!/bin/sh
# harmless.sh : apply every stored harmless rewrite (/verif/harmless/*.diff: behaviour changes no property
# speaks about, or pure reorderings that recompile the matcher tables) and run ALL twenty quick checks:
# none may report a violation.
for d in /verif/harmless/*.diff; do
  n=$(basename $d .diff)
  git -C /repo apply $d 2>/dev/null || { echo "$n: patch does not apply"; continue; }
  bad=""
  for p in C01 C02 C03 C04 C05 C06 C07 C08 C09 C10 C11 C12 C13 C14 C15 C16 C17 C18 C19 C20; do
    out=$(cd /verif && ./check $p --tier quick 2>&1); rc=$?
    if [ $rc -ne 0 ] || echo "$out" | grep -q "^VIOLATION"; then bad="$bad $p"; fi
  done
  echo "$n: alarms:${bad:- none}"
  git -C /repo checkout -- .
  git -C /repo clean -qfd src
done
(cd /verif && python3 harness/regen.py >/dev/null)
git -C /repo status --short | head
