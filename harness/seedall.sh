#!/bin/sh
# seedall.sh : run every stored seeded change against its own property's quick check
# (a few are caught by a neighbouring property's check instead: `caught_by` in meta.json)
for d in /verif/seeded/C*; do
  p=$(python3 -c "import json,sys; m=json.load(open(sys.argv[1])); print(m.get('caught_by') or m['property'])" $d/meta.json)
  n=$(basename $d)
  if python3 -c "import json,sys; sys.exit(0 if json.load(open('$d/meta.json')).get('obsolete') else 1)"; then echo "$n obsolete (skipped)"; continue; fi
  git -C /repo apply $d/patch.diff 2>/dev/null || { echo "$n: patch does not apply"; continue; }
  out=$(cd /verif && ./check $p --tier quick 2>&1); rc=$?
  nv=$(echo "$out" | grep -c "^VIOLATION"); nf=$(echo "$out" | grep -c "no-failing-input-found")
  echo "$n ($p) rc=$rc violations=$nv (no-failing-input-found: $nf)"
  git -C /repo checkout -- .
  git -C /repo clean -qfd src
done
git -C /repo status --short | head
