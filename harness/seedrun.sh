#!/bin/sh
# seedrun.sh <patch> <Cxx> [Cyy ...] : apply a seeded patch to /repo, run the checks, undo it.
patch=$1; shift
git -C /repo apply "$patch" || { echo "patch does not apply to /repo"; exit 2; }
for p in "$@"; do
  out=$(cd /verif && ./check $p --tier quick 2>&1); rc=$?
  echo "== $p rc=$rc"; echo "$out" | grep -E "VIOLATION|KNOWN" | cut -c1-160 | head -4
done
git -C /repo checkout -- .
git -C /repo clean -qfd src
git -C /repo status --short | head -3
