#!/usr/bin/env python3
"""Writes MANIFEST.json from the table of claimed properties below."""
import json, os, subprocess
V = os.path.dirname(os.path.dirname(os.path.abspath(__file__)))
props = [json.loads(l) for l in open(os.path.join(V, 'properties.jsonl'))]
ids = [p['id'] for p in props]

CLAIMED = json.load(open(os.path.join(V, 'harness', 'claimed.json')))

hooks = subprocess.run(['git', '-C', '/repo', 'log', '--format=%H %s'], stdout=subprocess.PIPE).stdout.decode().splitlines()
hook_commits = [l.split()[0] for l in hooks if ' verif hook:' in l]

checks = []
for pid in ids:
    if pid not in CLAIMED:
        continue
    c = CLAIMED[pid]
    checks.append({
        'property_id': pid,
        'quick_cmd': './check %s --tier quick' % pid,
        'thorough_cmd': './check %s --tier thorough' % pid,
        'evidence_file': '/verif/evidence/%s.json' % pid,
        'replay_cmd_template': './check %s --replay {path}' % pid,
        'engine': 'lean4-proof+correspondence',
        'level_claimed': {'category': 'proof', 'text': c['text'], 'design_ref': c.get('design_ref', 'DESIGN.md §7 ' + pid)},
        'level_note': c['note'],
        'technique': c.get('technique', 'Lean 4 theorem about a hand-written model + differential correspondence check against reply() + Spec judge on the real output'),
    })
m = {
    'version': 1,
    'setup_cmd': './setup.sh',
    'hooks': {
        'guard': 'masscanned_verif',
        'enable': 'RUSTFLAGS="--cfg masscanned_verif" cargo build --offline --target-dir /verif/.build/cargo ; run with MASSCANNED_VERIF=1',
        'baseline_off_cmd': 'cd /repo && cargo test --workspace --no-fail-fast --offline',
        'source_commits': hook_commits,
        'add_only': True,
    },
    'engines': [{'name': 'lean4-proof+correspondence', 'path': '/verif/check',
                 'serves_properties': [c['property_id'] for c in checks],
                 'kind_free_text': 'Lean 4.33 model + theorems (lake build, #print axioms audit), translator for compiled matcher tables, '
                                   'compiled model driver (mdriver) compared with the real reply() behind a cfg-guarded hook, Spec predicates judging the real output'}],
    'checks': checks,
    'not_applicable': [{'property_id': pid, 'reason': 'not claimed yet: machinery for this property is still being built (see DESIGN.md §9)'}
                       for pid in ids if pid not in CLAIMED],
    'notes': 'Known findings in /verif/known_findings.json; fixed defects are fix: commits in /repo. See DESIGN.md.',
}
json.dump(m, open(os.path.join(V, 'MANIFEST.json'), 'w'), indent=1)
print('claimed', [c['property_id'] for c in checks])
