"""Per-property exploration: case generators, projections, judges, known-finding classifiers."""
import glob
import json
import os
import struct

from lib import *   # noqa
import gen
from gen import World

CORPUS = os.path.join(VERIF, 'corpus')

# ----------------------------------------------------------------------------- reply parsing (harness side; used for projections only)


def split_reply(r):
    """frame -> dict(l2, ety, ip=(src,dst,proto,ttl), l4hdr fields, app payload) ; tolerant."""
    d = {'raw': r}
    if r is None or len(r) < 14:
        return d
    d['l2'] = r[:14]
    ety = struct.unpack('>H', r[12:14])[0]
    d['ety'] = ety
    p = r[14:]
    if ety == 0x0806:
        d['arp'] = p
        return d
    if ety == 0x0800 and len(p) >= 20:
        ihl = (p[0] & 15) * 4
        d['ip'] = (p[12:16], p[16:20], p[9], p[8], p[:1], p[6:8])
        l4 = p[ihl:]
        proto = p[9]
    elif ety == 0x86dd and len(p) >= 40:
        d['ip'] = (p[8:24], p[24:40], p[6], p[7], p[:1], b'')
        l4 = p[40:]
        proto = p[6]
    else:
        return d
    d['proto'] = proto
    if proto == 6 and len(l4) >= 20:
        sp, dp, seq, ack, off, fl, win = struct.unpack('>HHIIBBH', l4[:16])
        d['tcp'] = (sp, dp, seq, ack, ((off & 1) << 8) | fl, win, off >> 4)
        d['app'] = l4[20:]
    elif proto == 17 and len(l4) >= 8:
        sp, dp, ln, ck = struct.unpack('>HHHH', l4[:8])
        d['udp'] = (sp, dp, ln)
        d['app'] = l4[8:]
    else:
        d['l4'] = l4
    return d


def mask_env(app):
    """blank the wall-clock fields of an application reply"""
    if app is None:
        return None
    out = DATE_RE.sub(b'\nDate: <masked>\n', app)
    i = out.find(b'\xffSMB\x72')
    if i >= 0 and len(out) >= i + 32 + 32:
        out = out[:i + 32 + 24] + b'T' * 8 + out[i + 32 + 32:]
    i = out.find(b'\xfeSMB')
    if i >= 0 and out[i + 12:i + 14] == b'\x00\x00' and len(out) >= i + 64 + 56:
        out = out[:i + 64 + 40] + b'T' * 16 + out[i + 64 + 56:]
    return out


def proj_headers(r):
    d = split_reply(r)
    return (d.get('l2'), d.get('ip'), d.get('tcp'), d.get('udp'), d.get('arp'), d.get('l4'), len(d.get('app') or b''))


def proj_app(r):
    d = split_reply(r)
    return (d.get('proto'), mask_env(d.get('app')))


def outcome(rs):
    if rs is None:
        return 'dead'
    if rs == '-':
        return 'silent'
    if rs.startswith('PANIC'):
        return 'panic'
    return 'reply'

# ----------------------------------------------------------------------------- case generators
# a case = dict(ops=[op...], tags=[...]); ops always start with ('C', cfg), ('X',)


def case(w, frames, tags=()):
    return {'ops': [('C', w.cfg()), ('X',)] + [('F', f) for f in frames], 'tags': list(tags)}


def gen_mixed(rng, tier, nworlds=None, per=None, logger=None):
    """diverse single frames and short histories over many configurations"""
    nworlds = nworlds or (40 if tier == 'quick' else 600)
    per = per or 50
    cases = []
    for i in range(nworlds):
        w = World(rng, selfmode=[True, False, True, True][i % 4], denymode=[True, False][(i // 2) % 2],
                  logger=(logger or 'none'))
        frames = []
        tags = set()
        for _ in range(per):
            t, f = gen.gen_frame(rng, w)
            frames.append(f)
            tags.update(t)
        cases.append(case(w, frames, sorted(tags)))
    return cases


def gen_c06(rng, tier):
    cases = []
    nw = 2 if tier == 'quick' else 12
    for wi in range(nw):
        w = World(rng, selfmode=bool(wi % 2), denymode=False)
        for v6 in (False, True):
            frames = []
            for flags in range(512):
                seqs = [rng.choice([0, 1, 0x7fffffff, 0x80000000, 0xfffffffe, 0xffffffff, rng.below(1 << 32)])]
                if tier == 'thorough':
                    seqs += [0xffffffff, 0, rng.below(1 << 32)]
                for seq in seqs:
                    pl = rng.choice([b'', b'', b'x', rng.bytes(rng.below(20))])
                    sport, dport = rng.u16(), rng.u16()
                    s, d = w.addrs(v6)
                    ack = rng.choice([0, (w.cookie(s, d, sport, dport) + 1) & 0xffffffff, rng.below(1 << 32)])
                    frames.append(w.tcp_frame(v6, sport, dport, seq, ack, flags, pl))
            # history: some valid data first so that the table is not empty
            pre = [w.data_frame(v6, 1000 + k, 80, 5, b'GET / HTTP/1.1\r\n\r\n') for k in range(3)]
            cases.append(case(w, pre + frames, ['syn-grid', 'v6' if v6 else 'v4']))
        # retransmission determinism and one-input-changed cookies
        frames = []
        for _ in range(60 if tier == 'quick' else 600):
            v6 = rng.chance(1, 2)
            sport, dport = rng.u16(), rng.u16()
            f = w.tcp_frame(v6, sport, dport, rng.u32(), 0, 2)
            frames += [f, f]
        cases.append(case(w, frames, ['syn-retransmit']))
    return cases


def gen_flows(rng, tier, nflows=4, steps=60):
    """scripted interleavings of several TCP flows with right/wrong acks, wrap-around values, noise"""
    cases = []
    n = 30 if tier == 'quick' else 600
    for ci in range(n):
        w = World(rng, selfmode=rng.chance(1, 2), denymode=False, key=rng.choice([(0, 0), (rng.next(), rng.next())]))
        flows = []
        for _ in range(1 + rng.below(nflows)):
            flows.append([rng.chance(1, 2), rng.u16(), rng.u16(), rng.u32()])   # v6, sport, dport, seq
        frames = []
        for _ in range(steps):
            fl = rng.choice(flows)
            v6, sport, dport, seq = fl
            s, d = w.addrs(v6)
            ck = w.cookie(s, d, sport, dport)
            k = rng.below(12)
            if k <= 3:
                _, _, pl = gen.gen_app(rng, tcp=True)
                pl = pl[:rng.choice([len(pl), len(pl), 1, 0, 3])]
                ackd = rng.choice([1, 1, 1, 1, 0, 2, 0x80000000, 0xffffffff])
                frames.append(w.tcp_frame(v6, sport, dport, seq, (ck + ackd) & 0xffffffff, rng.choice([0x18, 0x18, 0x19, 0x38, 0x1a]), pl))
                fl[3] = (seq + len(pl)) & 0xffffffff
            elif k == 4:
                frames.append(w.tcp_frame(v6, sport, dport, seq, 0, 0x18, b'x'))          # ack = 0
            elif k == 5:
                frames.append(w.tcp_frame(v6, sport, dport, seq, rng.u32(), 0x02))
            elif k == 6:
                frames.append(w.tcp_frame(v6, sport, dport, seq, rng.u32(), 0x11))
            elif k == 7:
                frames.append(w.tcp_frame(v6, sport, dport, seq, rng.u32(), rng.choice([0x10, 0x04])))
            elif k == 8:
                frames.append(w.tcp_frame(v6, sport, dport, seq, rng.u32(), rng.below(512), rng.bytes(rng.below(5))))
            elif k == 9:
                frames.append(w.udp_frame(v6, sport, dport, gen.gen_app(rng)[2]))
            elif k == 10:
                frames.append(gen.gen_frame(rng, w)[1])
            else:
                # wrap-around: seq near 2^32
                fl[3] = rng.choice([0xffffffff, 0xfffffffe, 0])
        cases.append(case(w, frames, ['flows']))
    return cases


def gen_c09(rng, tier):
    cases = gen_flows(rng, tier, nflows=6, steps=(150 if tier == 'quick' else 400))
    # SYN flood + wrong-ack flood
    for _ in range(2 if tier == 'quick' else 20):
        w = World(rng, selfmode=False, denymode=False)
        frames = []
        for i in range(400 if tier == 'quick' else 4000):
            v6 = rng.chance(1, 2)
            k = rng.below(4)
            if k == 0:
                frames.append(w.tcp_frame(v6, rng.u16(), rng.u16(), rng.u32(), rng.u32(), 0x02 | rng.choice([0, 8, 0x20, 0x40, 0x80])))
            elif k == 1:
                frames.append(w.tcp_frame(v6, rng.u16(), rng.u16(), rng.u32(), rng.u32(), 0x18, b'GET / HTTP/1.1\r\n\r\n'))
            elif k == 2:
                frames.append(w.tcp_frame(v6, rng.u16(), rng.u16(), rng.u32(), rng.u32(), rng.choice([0x10, 0x11, 0x04, 0x01])))
            else:
                frames.append(w.udp_frame(v6, rng.u16(), rng.u16(), gen.gen_app(rng)[2]))
        cases.append(case(w, frames, ['flood']))
    return cases


LEVELS = ['off', 'error', 'warn', 'info', 'debug', 'trace']
LOGGERS = ['none', 'console', 'logfmt']


def hostile_frames(rng, w, n):
    """valid application exchanges of every protocol, then mutated (truncations, lying lengths, hostile TLVs)"""
    frames = []
    for _ in range(n):
        v6 = rng.chance(1, 2)
        k = rng.below(10)
        if k <= 3:
            kind, fault, pl = gen.gen_app(rng, tcp=False)
            if rng.chance(1, 2):
                pl = gen.mutate(rng, pl)
            f = w.udp_frame(v6, rng.u16(), rng.u16(), pl)
        elif k <= 6:
            kind, fault, pl = gen.gen_app(rng, tcp=True)
            if rng.chance(1, 2):
                pl = gen.mutate(rng, pl)
            sport = rng.u16()
            f = w.data_frame(v6, sport, rng.choice([80, 22, 445, 111, rng.u16()]), rng.u32(), pl)
            if rng.chance(1, 3) and len(pl) > 1:
                # segmented: send the two halves on the same flow
                cut = 1 + rng.below(len(pl) - 1)
                dport = rng.u16()
                frames.append(w.data_frame(v6, sport, dport, 5, pl[:cut]))
                f = w.data_frame(v6, sport, dport, 5 + cut, pl[cut:])
        elif k == 7:
            f = gen.gen_frame(rng, w)[1]
        elif k == 8:
            # ND-NS with hostile options / short
            tgt = rng.choice([w.my6, rng.bytes(16)])
            rest = bytes(4) + tgt + rng.choice([b'', bytes([1, rng.below(256)]) + rng.bytes(rng.below(40)), rng.bytes(rng.below(30))])
            rest = rest[:rng.choice([len(rest), len(rest), rng.below(len(rest) + 1)])]
            f = w.f6(58, icmp6(135, rng.choice([0, 0, 1]), rest, w.cl6, w.my6))
        else:
            f = rng.bytes(rng.choice([0, 1, 13, 14, 15, 33, 34, 53, 54, rng.below(80)]))
        if rng.chance(1, 5):
            f = gen.mutate(rng, f)
        frames.append(f[:4096])
    return frames


def gen_c01(rng, tier):
    cases = []
    per = 60 if tier == 'quick' else 1500
    for si in range(2):
        for di in range(2):
            for lg in LOGGERS:
                for lv in LEVELS:
                    w = World(rng, selfmode=bool(si), denymode=bool(di), logger=lg, level=lv)
                    cases.append(case(w, hostile_frames(rng, w, per), ['hostile', 'logger:' + lg, 'level:' + lv]))
    return cases


def gen_c20(rng, tier):
    cases = []
    n = 24 if tier == 'quick' else 400
    for i in range(n):
        w = World(rng, selfmode=[True, False][i % 2], denymode=[True, False][(i // 2) % 2], logger=['console', 'logfmt'][(i // 4) % 2])
        frames = []
        tags = set(['logger:' + w.logger])
        for _ in range(60):
            if rng.chance(1, 3):
                frames += hostile_frames(rng, w, 1)
            else:
                t, f = gen.gen_frame(rng, w)
                frames.append(f)
                tags.update(t)
        cases.append(case(w, frames, sorted(tags)))
    return cases


def gen_c05(rng, tier):
    cases = []
    nw = 6 if tier == 'quick' else 40
    for wi in range(nw):
        w = World(rng, selfmode=bool(wi % 2), denymode=bool((wi // 2) % 2))
        frames = []
        # ARP: operations, field variants, handled / unhandled targets
        for op in [1, 1, 1, 2, 0, 3, 4, 8, 65535, rng.below(65536)]:
            for tpa in [w.my4, w.other4, rng.bytes(4)]:
                frames.append(eth(rng.choice([BCAST, w.mac]), w.cl_mac, 0x0806,
                                  arp(op, w.cl_mac, w.cl4, rng.choice([bytes(6), rng.bytes(6)]), tpa,
                                      pad=rng.choice([b'', bytes(18), rng.bytes(rng.below(20))]))))
        for _ in range(10):
            frames.append(eth(BCAST, w.cl_mac, 0x0806, arp(1, w.cl_mac, w.cl4, bytes(6), w.my4, htype=rng.choice([1, 6, 0]),
                                                            ptype=rng.choice([0x0800, 0x86dd]), hlen=rng.choice([6, 8]), plen=rng.choice([4, 16]))))
        # ICMPv4 / ICMPv6 type x code grids (sampled in quick, exhaustive over the cross in thorough)
        types4 = [8, 0, 3, 5, 11, 13, 15, 17] + [rng.below(256) for _ in range(8 if tier == 'quick' else 60)]
        types6 = [128, 135, 129, 136, 133, 134, 1, 2, 3] + [rng.below(256) for _ in range(8 if tier == 'quick' else 60)]
        codes = [0, 0, 1, 255, rng.below(256)] + ([rng.below(256) for _ in range(10)] if tier == 'thorough' else [])
        for ty in types4:
            for code in codes:
                ln = rng.choice([0, 1, 4, 8, 13, 56, 100, 1472, rng.below(1473)])
                frames.append(w.f4(1, icmp(ty, code, rng.bytes(ln)), dst=rng.choice([None, None, None, w.other4])))
        for ty in types6:
            for code in codes:
                dst = rng.choice([None, None, None, w.other6])
                if ty == 135:
                    tgt = rng.choice([w.my6, w.my6, w.other6])
                    rest = bytes(4) + tgt + rng.choice([b'', bytes([1, 1]) + w.cl_mac, rng.bytes(8)])
                    if rng.chance(1, 6):
                        rest = rest[:rng.below(len(rest))]
                    sn = bytes.fromhex('ff0200000000000000000001ff') + tgt[13:]
                    frames.append(eth(rng.choice([w.mac, bytes([0x33, 0x33, 0xff]) + tgt[13:]]), w.cl_mac, 0x86dd,
                                      ipv6(w.cl6, rng.choice([sn, w.my6]), 58, icmp6(135, code, rest, w.cl6, sn))))
                else:
                    ln = rng.choice([0, 1, 4, 8, 13, 56, 100, 1452, rng.below(1453)])
                    frames.append(w.f6(58, icmp6(ty, code, rng.bytes(ln), w.cl6, dst or w.my6), dst=dst))
        cases.append(case(w, frames, ['arp-grid', 'icmp-grid']))
    return cases


# ----------------------------------------------------------------------------- property table

PROPS = {
    'C01': dict(gen=gen_c01, judge=None, proj=lambda r: None, release=True,
                rule='hostile frames (valid exchanges of every protocol, mutated: truncation, lying lengths, hostile TLVs, non-UTF-8 text, segmented flows) '
                     'over all 2x2x3x6 configurations with real loggers attached and log arguments evaluated; non-trivial = distinct (frame, logger, level) '
                     'with an authorised destination MAC, i.e. processed beyond the Ethernet filter; judge: no PANIC',
                trusted=['panics are observed through catch_unwind in the hook driver; aborts that are not panics (allocation failure, stack overflow) are outside the model']),
    'C20': dict(gen=gen_c20, judge='C20', judge_mode='log', proj=lambda r: None,
                rule='structured and hostile frames with the real ConsoleLogger / LogfmtLogger attached; the stdout of the logger is parsed line by line; '
                     'non-trivial = frame that produced at least one event'),
    'C02': dict(gen=lambda rng, tier: gen_mixed(rng, tier), judge='C02', proj=proj_headers,
                rule='frames from the structured frame builder over configurations {self list on/off}x{deny list on/off}; '
                     'non-trivial = frame that C02 requires to be silent, or a reply under a configured self-IP list'),
    'C03': dict(gen=lambda rng, tier: gen_mixed(rng, tier), judge='C03', proj=proj_headers,
                rule='frames from the structured frame builder; non-trivial = frame that elicited a reply (mirror relation evaluated)'),
    'C04': dict(gen=lambda rng, tier: gen_mixed(rng, tier), judge='C04', proj=lambda r: r,
                rule='frames from the structured frame builder, payload sizes 0..4 KiB incl. odd; non-trivial = a reply was emitted and re-parsed / re-checksummed'),
    'C05': dict(gen=gen_c05, judge='C05', proj=lambda r: r,
                rule='ARP operations x field variants x handled/unhandled targets; ICMPv4/ICMPv6 type x code grids with payload lengths 0..1472; '
                     'Neighbour Solicitations (handled/unhandled target, options, truncated); non-trivial = frame for which C05 prescribes an answer or silence'),
    'C06': dict(gen=gen_c06, judge='C06', proj=proj_headers, release=True,
                rule='all 512 flag words x boundary sequence numbers x IPv4/IPv6 x with/without payload after a non-empty history; non-trivial = delivered segment with SYN set'),
    'C07': dict(gen=gen_flows, judge='C07', proj=proj_headers, release=True,
                rule='scripted interleavings of 1-4 flows (right/wrong/zero ack, wrap-around, FIN, RST, ACK, noise); non-trivial = segment delivered to TCP and compared with the reference connection model'),
    'C09': dict(gen=gen_c09, judge='C09', proj=lambda r: None, table=True,
                rule='hostile histories (SYN floods, wrong-ack data, FIN/RST/ACK, UDP/ICMP/ARP noise) with a table-size probe after every frame; non-trivial = frame delivered to TCP'),
}


def classify_known(prop, v, known):
    for k in known:
        m = k.get('match', {})
        if m.get('clause_contains') and m['clause_contains'] not in v.get('clause', ''):
            continue
        if m.get('requires_tag') and m['requires_tag'] not in v.get('tags', []):
            continue
        if m.get('requires_flag') and not v.get(m['requires_flag']):
            continue
        return k
    return None

# ----------------------------------------------------------------------------- engine


def load_corpus(prop):
    cases = []
    for path in sorted(glob.glob(os.path.join(CORPUS, prop + '-*.json')) + glob.glob(os.path.join(CORPUS, 'all-*.json'))):
        c = json.load(open(path))
        cases.append(case_from_json(c, os.path.basename(path)))
    return cases


def op_to_json(op):
    if op[0] == 'C':
        c = op[1]
        return ['C', {'mac': c['mac'].hex(), 'self': None if c['self'] is None else [x.hex() for x in c['self']],
                      'deny': None if c['deny'] is None else [x.hex() for x in c['deny']],
                      'key': ['%x' % c['key'][0], '%x' % c['key'][1]], 'logger': c['logger'], 'level': c['level']}]
    return [x.hex() if isinstance(x, (bytes, bytearray)) else x for x in op]


def op_from_json(j):
    if j[0] == 'C':
        c = j[1]
        return ('C', dict(mac=bytes.fromhex(c['mac']), self=None if c['self'] is None else [bytes.fromhex(x) for x in c['self']],
                          deny=None if c['deny'] is None else [bytes.fromhex(x) for x in c['deny']],
                          key=(int(c['key'][0], 16), int(c['key'][1], 16)), logger=c['logger'], level=c['level']))
    if j[0] == 'F':
        return ('F', bytes.fromhex(j[1]))
    if j[0] == 'A':
        return ('A', j[1], bytes.fromhex(j[2]), bytes.fromhex(j[3]), j[4], j[5], j[6], bytes.fromhex(j[7]))
    return tuple(j)


def case_from_json(c, name=''):
    return {'ops': [op_from_json(o) for o in c['ops']], 'tags': c.get('tags', []) + ['corpus:' + name]}


def run_cases(cases, want_model=True):
    """Run every case on the implementation and on the model. Fills case['impl'], case['model'] (block lists)."""
    ops = [o for c in cases for o in c['ops']]
    ib, rc, err, partial = run_impl(ops)
    dead = len(ib) < len(ops)
    k = 0
    for c in cases:
        n = len(c['ops'])
        c['impl'] = ib[k:k + n]
        k += n
    if not want_model:
        return dead
    mops = []
    for c in cases:
        for o, b in zip(c['ops'], c['impl'] + [None] * (len(c['ops']) - len(c['impl']))):
            if b is not None and o[0] in ('F', 'A') and b['r'] and not b['r'].startswith(('-', 'PANIC', 'bad')):
                hexpart = b['r'].split()[0]
                try:
                    d, s = extract_env(bytes.fromhex(hexpart))
                except ValueError:
                    d, s = None, None
                if d is not None or s is not None:
                    mops.append(('E', d or b'', s or 0))
            mops.append(o)
    mb, rc2, err2, _ = run_model(mops)
    k = 0
    for c in cases:
        n = len(c['ops'])
        c['model'] = mb[k:k + n]
        k += n
    return dead


def impl_events(c, i):
    """canonical events of the implementation's logger output for op i; None if a line does not parse"""
    logger = c['ops'][0][1]['logger']
    out = []
    for l in c['impl'][i]['log']:
        e = parse_log_line(l, logger)
        if e is None:
            return None
        out.append(e)
    return out


KNOWN_PROTO_NUMS = set(PROTO_NAMES.values())


def ev_equal(a, b):
    """implementation event vs model event (transport printed as 'unknown' by pnet is a wildcard)"""
    if a == b:
        return True
    x, y = a.split(), b.split()
    if len(x) != len(y):
        return False
    for k, (u, v) in enumerate(zip(x, y)):
        if u == v:
            continue
        if k == 7 and u == '-' and v.isdigit() and int(v) not in KNOWN_PROTO_NUMS:
            continue
        return False
    return True


def judge_lines(c, mode='frame'):
    """judge input for one case: cfg/reset lines and observation lines"""
    lines = []
    idx = []
    for i, (o, b) in enumerate(zip(c['ops'], c['impl'])):
        if o[0] in ('C', 'X'):
            lines.append(render(o, 'model'))
        elif o[0] == 'F':
            r = b['r'] if b['r'] else '-'
            r = r.replace(' ', '_') if r.startswith('PANIC') else r
            if mode == 'log':
                if r.startswith('PANIC'):
                    continue
                evs = impl_events(c, i)
                if evs is None:
                    lines.append('L %s %s %s' % (hx(o[1]), r, 'unparsable'))
                else:
                    lines.append('L %s %s %s' % (hx(o[1]), r, ';'.join(','.join(e.split()[1:]) for e in evs) or '-'))
            else:
                lines.append('F %s %s %d' % (hx(o[1]), r, b['t'] if b['t'] is not None else 0))
            idx.append(i)
    return lines, idx


def explore(prop, pd, tier, seed, replay=None):
    rng = Rng(seed * 1000003 + int(prop[1:]))
    if replay:
        cases = [case_from_json(json.load(open(replay)), 'replay')]
    else:
        cases = load_corpus(prop) + pd['gen'](rng, tier)
    if pd.get('custom'):
        return pd['custom'](prop, pd, tier, rng, cases)
    dead = run_cases(cases)
    violations = []
    disagreements = []
    nontrivial = set()
    evaluations = 0
    byte_exact = 0
    compared = 0
    tagdist = {}
    outdist = {'reply': 0, 'silent': 0, 'panic': 0}
    samples = []
    # judge
    jl = []
    jmap = []
    for ci, c in enumerate(cases):
        l, idx = judge_lines(c, pd.get('judge_mode', 'frame'))
        jl += l
        jmap += [(ci, i) for i in idx]
        for t in c['tags']:
            tagdist[t] = tagdist.get(t, 0) + 1
    verdicts, rc, err = [], 0, ''
    if pd.get('judge'):
        from check import run_judge
        verdicts, rc, err = run_judge(pd['judge'], jl)
    vmap = {}
    for (ci, i), v in zip(jmap, verdicts):
        vmap[(ci, i)] = v
    for ci, c in enumerate(cases):
        for i, o in enumerate(c['ops']):
            if o[0] != 'F':
                continue
            if i >= len(c['impl']):
                violations.append({'clause': 'implementation process died', 'ops': [op_to_json(x) for x in c['ops'][:i + 1]], 'tags': c['tags']})
                break
            evaluations += 1
            a = c['impl'][i]
            outdist[outcome(a['r'])] = outdist.get(outcome(a['r']), 0) + 1
            if outcome(a['r']) == 'panic':
                violations.append({'clause': 'implementation panicked: ' + a['r'], 'ops': [op_to_json(x) for x in c['ops'][:i + 1]], 'tags': c['tags'], 'panic': True})
                continue
            v = vmap.get((ci, i))
            if not pd.get('judge') and o[1][:6] in auth_macs(c['ops'][0][1]) and len(o[1]) >= 14:
                nontrivial.add((o[1], c['ops'][0][1]['logger'], c['ops'][0][1]['level']))
                if len(samples) < 3:
                    samples.append({'config': op_to_json(c['ops'][0])[1], 'frame': o[1].hex(), 'outcome': a['r'][:200]})
            if v is not None:
                parts = v.split(' ', 3)
                if parts[1] == 'FAIL':
                    viol = {'clause': parts[3] if len(parts) > 3 else '', 'ops': [op_to_json(x) for x in c['ops'][:i + 1]],
                            'tags': c['tags'], 'reply': a['r'], 'frame_index': i}
                    if 'cookie collision' in viol['clause']:
                        viol['cookie_collision'] = True
                    violations.append(viol)
                elif parts[1] == 'ok' and parts[2] == '1':
                    nontrivial.add(o[1])
                    if len(samples) < 3:
                        samples.append({'config': op_to_json(c['ops'][0])[1], 'frame': o[1].hex(), 'reply': a['r'][:400], 'table': a['t']})
            # correspondence
            if i < len(c['model']):
                b = c['model'][i]
                compared += 1
                evs_ok = True
                if pd.get('judge_mode') == 'log' and outcome(a['r']) != 'panic':
                    ie = impl_events(c, i)
                    me = [l for l in b['log'] if l.startswith('EV ')]
                    evs_ok = ie is not None and len(ie) == len(me) and all(ev_equal(x, y) for x, y in zip(ie, me))
                if a['r'] == b['r'] and a['t'] == b['t'] and evs_ok:
                    byte_exact += 1
                elif not evs_ok:
                    disagreements.append({'ops': [op_to_json(x) for x in c['ops'][:i + 1]], 'impl_log': c['impl'][i]['log'][:12],
                                          'model_log': b['log'][:12]})
                else:
                    ra = bytes.fromhex(a['r']) if outcome(a['r']) == 'reply' else None
                    rb = bytes.fromhex(b['r']) if outcome(b['r']) == 'reply' else None
                    pa = (outcome(a['r']), pd['proj'](ra) if ra is not None else None, a['t'] if pd.get('table') else None)
                    pb = (outcome(b['r']), pd['proj'](rb) if rb is not None else None, b['t'] if pd.get('table') else None)
                    if pa != pb:
                        disagreements.append({'ops': [op_to_json(x) for x in c['ops'][:i + 1]], 'impl': a['r'][:600], 'model': b['r'][:600],
                                              'impl_table': a['t'], 'model_table': b['t']})
    if verdicts and len(verdicts) != len(jmap):
        disagreements.append({'what': 'judge produced %d verdicts for %d observations: %s' % (len(verdicts), len(jmap), err[:300])})
    if dead:
        violations.append({'clause': 'implementation driver died before finishing the op list', 'ops': []})
    cov = {
        'evaluations': evaluations,
        'distinct_nontrivial': len(nontrivial),
        'rule': pd.get('rule', ''),
        'samples': samples or [{'note': 'no non-trivial case reached'}],
        'traces_validated_against_impl': compared,
        'byte_exact_agreement': byte_exact,
        'projection_disagreements': len(disagreements),
        'input_distribution': {'tags': tagdist, 'outcomes': outdist, 'cases': len(cases)},
    }
    return {'coverage': cov, 'violations': violations, 'disagreements': disagreements}
