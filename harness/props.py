"""Per-property exploration: case generators, projections, judges, known-finding classifiers."""
import glob
import json
import os
import struct

from lib import *   # noqa
import lib
import gen
from gen import World

CORPUS = os.path.join(VERIF, 'corpus')

# ----------------------------------------------------------------------------- reply parsing (harness side; used for projections only)


def split_reply(r):
    """frame -> dict(l2, ety, ip=(src,dst,proto,ttl), l4hdr fields, app payload) ; tolerant."""
    d = {'raw': r}
    if r is None or len(r) < 14:
        return d
    d['l2'] = r[:14]
    ety = struct.unpack('>H', r[12:14])[0]
    d['ety'] = ety
    p = r[14:]
    if ety == 0x0806:
        d['arp'] = p
        return d
    if ety == 0x0800 and len(p) >= 20:
        ihl = (p[0] & 15) * 4
        d['ip'] = (p[12:16], p[16:20], p[9], p[8], p[:1], p[6:8])
        l4 = p[ihl:]
        proto = p[9]
    elif ety == 0x86dd and len(p) >= 40:
        d['ip'] = (p[8:24], p[24:40], p[6], p[7], p[:1], b'')
        l4 = p[40:]
        proto = p[6]
    else:
        return d
    d['proto'] = proto
    if proto == 6 and len(l4) >= 20:
        sp, dp, seq, ack, off, fl, win = struct.unpack('>HHIIBBH', l4[:16])
        d['tcp'] = (sp, dp, seq, ack, ((off & 1) << 8) | fl, win, off >> 4)
        d['app'] = l4[20:]
    elif proto == 17 and len(l4) >= 8:
        sp, dp, ln, ck = struct.unpack('>HHHH', l4[:8])
        d['udp'] = (sp, dp, ln)
        d['app'] = l4[8:]
    else:
        d['l4'] = l4
    return d


def mask_env(app):
    """blank the wall-clock fields of an application reply"""
    if app is None:
        return None
    out = DATE_RE.sub(b'\nDate: <masked>\n', app)
    i = out.find(b'\xffSMB\x72')
    if i >= 0 and len(out) >= i + 32 + 32:
        out = out[:i + 32 + 24] + b'T' * 8 + out[i + 32 + 32:]
    i = out.find(b'\xfeSMB')
    if i >= 0 and out[i + 12:i + 14] == b'\x00\x00' and len(out) >= i + 64 + 56:
        out = out[:i + 64 + 40] + b'T' * 16 + out[i + 64 + 56:]
    return out


def app_class(app):
    """coarse protocol class of an application reply (what the properties' projections compare)"""
    if app is None:
        return None
    return reflect_class(app) if app else 'empty'


def proj_headers(r):
    """projection of a reply frame on the fields the layer-2..4 properties speak about: addresses, protocol,
    ports, sequence/acknowledgement numbers, flags, ARP / ICMP bodies without checksum — NOT ttl, ip id, window,
    lengths, checksums or the application bytes (those are judged on the implementation's own output; a harmless
    rewrite of e.g. the HTML page or the TTL must not look like a violation)"""
    d = split_reply(r)
    ip = d.get('ip')
    tcp = d.get('tcp')
    udp = d.get('udp')
    l4 = d.get('l4')
    return (d.get('l2'), (ip[0], ip[1], ip[2]) if ip else None, tcp[:5] if tcp else None, udp[:2] if udp else None,
            d.get('arp'), (l4[:2] + l4[4:]) if l4 else None, app_class(d.get('app')))


def proj_app(r):
    d = split_reply(r)
    return (d.get('proto'), app_class(d.get('app')))


def proj_a(rs):
    """projection of an A-op result "<hex|-> <port>": answered?, responder class, local-port value"""
    parts = rs.split()
    if not parts or parts[0] in ('-',):
        return ('silent', parts[1] if len(parts) > 1 else None)
    if parts[0] == 'PANIC':
        return ('panic',)
    try:
        return ('reply', reflect_class(bytes.fromhex(parts[0])), parts[1] if len(parts) > 1 else None)
    except ValueError:
        return ('raw', rs)

def outcome(rs):
    if rs is None:
        return 'dead'
    if rs == '-' or rs.startswith('- '):
        return 'silent'
    if rs.startswith('PANIC'):
        return 'panic'
    return 'reply'

# ----------------------------------------------------------------------------- case generators
# a case = dict(ops=[op...], tags=[...]); ops always start with ('C', cfg), ('X',)


def case(w, frames, tags=()):
    return {'ops': [('C', w.cfg()), ('X',)] + [('F', f) if isinstance(f, (bytes, bytearray)) else f for f in frames], 'tags': list(tags)}


_TSHIFT = [0]


def tjump(seconds):
    """`seconds` pass (Z op): the clock shim of the harness shifts every clock the implementation reads; the shift only grows"""
    _TSHIFT[0] += seconds
    return ('Z', _TSHIFT[0])


def gen_mixed(rng, tier, nworlds=None, per=None, logger=None):
    """diverse single frames and short histories over many configurations"""
    nworlds = nworlds or (200 if tier == 'quick' else 3000)
    per = per or 50
    cases = []
    for i in range(nworlds):
        w = World(rng, selfmode=[True, False, True, True][i % 4], denymode=[True, False][(i // 2) % 2],
                  logger=(logger or 'none'))
        frames = []
        tags = set()
        for _ in range(per):
            t, f = gen.gen_frame(rng, w)
            frames.append(f)
            tags.update(t)
        cases.append(case(w, frames, sorted(tags)))
    return cases


def gen_c04(rng, tier):
    cases = gen_mixed(rng, tier)
    # checksum value sweep: the same request from many source ports (the reply checksum walks through the
    # 16-bit space; includes the port for which the UDP/IPv6 checksum computes to zero)
    w = World(rng, selfmode=False, denymode=False, key=(0, 0))
    w.mac, w.cl_mac = MAC_ME, MAC_CL
    w.cl6, w.my6 = bytes([0x20] * 16), bytes([0x30] * 16)
    st = bytes.fromhex('000100002112a442') + bytes(12)
    ports = range(0, 65536) if tier == 'thorough' else list(range(21400, 21600)) + [rng.below(65536) for _ in range(300)]
    frames = [w.udp_frame(True, sp, 3478, st) for sp in ports]
    cases.append(case(w, frames, ['udp6-checksum-sweep']))
    # ones-complement carry patterns, deterministically: echo bodies whose words sum past one and two carries,
    # odd lengths, all-ones runs; STUN transaction ids and DNS ids of all-ones (echoed into the reply)
    frames = []
    for body in [b'\xff\xff\xff\xff\x00\x01', b'\xff\xff\xff\xff\x00\x02', b'\xff\xff\xff\xff\x01', b'\xff\xff\xff\xff\xff\xfe',
                 b'\xff\xff\xff\xff', b'\xff' * 7, b'\xff' * 8, b'\xff' * 64, b'\xff' * 65, b'\xff' * 1472, (b'\xff\xfe' * 300)[:599],
                 b'\x00\x00\x00\x00', b'\xf7\xff\x00\x00', b'\xf7\xfe\x00\x01\xff\xff']:
        frames.append(w.f4(1, icmp(8, 0, body)))
        frames.append(w.f6(58, icmp6(128, 0, body[:1452], *w.addrs(True))))
    for tid in (b'\xff' * 16, b'\xff\xff\xff\xff' + bytes(12), b'\x00' * 16):
        for v6 in (False, True):
            frames.append(w.udp_frame(v6, 0xffff, 3478, b'\x00\x01\x00\x00' + tid))
            frames.append(w.udp_frame(v6, 0xffff, 53, b'\xff\xff\x01\x00\x00\x01\x00\x00\x00\x00\x00\x00' + b'\x3f' + b'\xff' * 63 + b'\x00\x00\x01\x00\x01'))
    for dlt in (1, 0x100, 0x8000, 0xffff, 0x1234):
        frames.append(w.f6(58, icmp6(128, 0, b'abcdefgh', *w.addrs(True), ckdelta=dlt)))
        good = icmp(8, 0, b'abcdefgh')
        frames.append(w.f4(1, icmp(8, 0, b'abcdefgh', ck=(struct.unpack('>H', good[2:4])[0] + dlt) & 0xffff)))
        frames.append(w.f6(58, icmp6(135, 0, bytes(4) + w.my6 + b'\x01\x01' + w.cl_mac, *w.addrs(True), ckdelta=dlt)))
    cases.append(case(w, frames, ['carry-patterns', 'wrong-request-checksums']))
    # requests that make a responder rewrite reply addresses or ports (checksums must follow)
    w2 = World(rng, selfmode=True, denymode=False)
    w2.self = [w2.my4, w2.my6, w2.my4b, w2.my6b]
    cases.append(case(w2, stun_sweep_frames(rng, w2, dports=(3478, 65535), flagset=(0, 2, 4, 6)), ['stun-rewrite-sweep']))
    if tier == 'thorough':
        frames = [w.udp_frame(False, sp, 3478, st) for sp in range(0, 65536, 3)]
        frames += [w.fip(v6, 58 if v6 else 1, (icmp6(128, 0, struct.pack('>HH', i, 0xffff) + b'\x00\x01', *w.addrs(True)) if v6 else icmp(8, 0, struct.pack('>HH', i, 0xffff) + b'\x00\x01')))
                   for i in range(0, 65536, 5) for v6 in (False, True)]
        cases.append(case(w, frames, ['checksum-sweep']))
    return cases + gen_sticky(rng, tier) + sweep_cases(rng)


def stun_sweep_frames(rng, w, dports=(3478, 65535, 0), flagset=None):
    """answered STUN requests over UDP/IPv4 and UDP/IPv6: every CHANGE-REQUEST flag word, one or two CHANGE-REQUEST
    attributes, with / without magic cookie (the cookie-bearing form padded beyond 256 attribute bytes so that the
    matcher identifies it, K2), plus one request of every other protocol over UDP and as a first TCP segment"""
    frames = []
    for v6 in (False, True):
        for dport in tuple(dports) + (rng.u16(),):
            for flags in (flagset or (list(range(8)) + [0xffffffff, 0x80000002, 0x106])):
                for second in (None, 2, 4):
                    attrs = gen.stun_attr(3, struct.pack('>I', flags))
                    if second is not None:
                        attrs += gen.stun_attr(0x8022, b'abcd') + gen.stun_attr(3, struct.pack('>I', second))
                    for cookie_ in (b'\x21\x12\xa4\x42', rng.bytes(4)):
                        a = attrs + (gen.stun_attr(0x8022, bytes(252)) if cookie_[0] == 0x21 else b'')
                        if cookie_[0] != 0x21 and second is not None:
                            continue   # the cookie-less form is only identified with exactly one CHANGE-REQUEST
                        st = b'\x00\x01' + struct.pack('>H', len(a)) + cookie_ + rng.bytes(12) + a
                        frames.append(w.udp_frame(v6, rng.u16(), dport, st))
        for kind in ('http', 'ssh', 'ghost', 'dns', 'rpc', 'smb1', 'smb2'):
            pl = gen.gen_app(rng, tcp=False, kinds=[kind])[2]
            frames.append(w.udp_frame(v6, rng.u16(), rng.u16(), pl))
            frames.append(w.data_frame(v6, rng.u16(), rng.u16(), rng.u32(), gen.gen_app(rng, tcp=True, kinds=[kind])[2]))
        # STUN over TCP: the cookie-bearing long form as the first data segment of a flow, with change-port requests
        for flags in (0, 2, 4, 6):
            a = gen.stun_attr(3, struct.pack('>I', flags)) + gen.stun_attr(0x8022, bytes(252))
            st = b'\x00\x01' + struct.pack('>H', len(a)) + b'\x21\x12\xa4\x42' + rng.bytes(12) + a
            frames.append(w.data_frame(v6, rng.u16(), rng.choice([3478, 65535, rng.u16()]), rng.u32(), st))
    return frames


def gen_c03(rng, tier):
    """mixed frames + a systematic sweep of answered requests (see stun_sweep_frames), with and without self list"""
    cases = gen_mixed(rng, tier)
    for selfmode in (True, False):
        w = World(rng, selfmode=selfmode, denymode=False)
        cases.append(case(w, stun_sweep_frames(rng, w), ['stun-change-request-sweep', 'self-list' if selfmode else 'no-self-list']))
        cases.append(case(w, l24_request_sweep(rng, w), ['request-mac-source-sweep']))
        cases.append(case(w, protocol_shape_frames(rng, w), ['protocol-sweep-shaped-payloads']))
    return cases + gen_sticky(rng, tier)


KNOWN_ETYPES = [0x0800, 0x0806, 0x86dd, 0x8100, 0x88a8, 0x9100, 0x9200, 0x8847, 0x8848, 0x8863, 0x8864, 0x88cc, 0x0842, 0x8035, 0x809b,
                0x80f3, 0x8137, 0x8138, 0x88e5, 0x88f7, 0x22f3, 0x6003, 0x8870, 0x88b8, 0x8915, 0x0101, 0x05ff, 0x0600]


def ethertype_frames(rng, w):
    """frames of every well-known EtherType: with 0..5 payload bytes (runts of a newly handled type), and carrying a tag / shim in
    front of an inner EtherType and a well-formed answerable packet (802.1Q priority and VLAN tags, Q-in-Q, MPLS-like shims)"""
    out = []
    echo4 = ipv4(w.cl4, w.my4, 1, icmp(8, 0, b'abcdefgh'))
    echo6 = ipv6(w.cl6, w.my6, 58, icmp6(128, 0, b'abcdefgh', w.cl6, w.my6))
    arpq = arp(1, w.cl_mac, w.cl4, bytes(6), w.my4)
    syn4 = ipv4(w.cl4, w.my4, 6, lib.tcp(4000, 80, 1, 0, 2, src=w.cl4, dst=w.my4))
    for ety in KNOWN_ETYPES:
        for dm in (w.mac, BCAST):
            for n in range(6):
                out.append(eth(dm, w.cl_mac, ety, rng.choice([bytes(n), rng.bytes(n), b'\x00\x00\x08\x00\x45'[:n]])))
        for tci in (b'\x00\x00', b'\xe0\x00', b'\x00\x01', b'\x0f\xff', b'\x10\x00'):
            for inner, pkt in ((0x0800, echo4), (0x0806, arpq), (0x86dd, echo6), (0x0800, syn4)):
                out.append(eth(w.mac if inner != 0x0806 else BCAST, w.cl_mac, ety, tci + struct.pack('>H', inner) + pkt))
        out.append(eth(w.mac, w.cl_mac, ety, b'\x00\x00\x81\x00\x00\x00\x08\x00' + echo4))      # double tag
        out.append(eth(w.mac, w.cl_mac, ety, echo4))
    return out


def protocol_shape_frames(rng, w):
    """every IP protocol number (IPv4 and IPv6) in front of payloads shaped like the transports the responder knows: a UDP datagram
    with a STUN / DNS request, a TCP SYN, a complete IPv6 packet (6in4 style), a complete IPv4 packet (IP in IP), an ICMP echo"""
    out = []
    stun = b'\x00\x01\x00\x00' + rng.bytes(16)
    dns = struct.pack('>HHHHHH', 7, 0x0100, 1, 0, 0, 0) + b'\x01a\x00' + struct.pack('>HH', 1, 1)
    inner6 = ipv6(w.cl6, w.my6, 6, lib.tcp(4000, 80, 1, 0, 2, src=w.cl6, dst=w.my6))
    inner4 = ipv4(w.cl4, w.my4, 1, icmp(8, 0, b'abcdefgh'))
    for proto in range(256):
        for v6 in (False, True):
            s_, d_ = w.addrs(v6)
            for l4 in (lib.udp(4000, 3478, stun, src=s_, dst=d_), lib.udp(4000, 53, dns, src=s_, dst=d_), lib.tcp(4000, 80, 1, 0, 2, src=s_, dst=d_), inner6, inner4):
                if proto in (1, 6, 17, 58) and l4 not in (inner6, inner4):
                    continue        # (the genuine pairings are everywhere else)
                out.append(w.fip(v6, proto, l4))
    return out


def mac_derived_frames(rng, w):
    """addresses a stack might derive from its own MAC without being told: the EUI-64 link-local address fe80::(MAC), its
    solicited-node group and MAC, the IPv4 link-local address made of the last MAC bytes -- as destination, as solicited target,
    as ARP target, on the own MAC and on the derived multicast MAC"""
    m = w.mac
    ll = bytes.fromhex('fe80000000000000') + bytes([m[0] ^ 2, m[1], m[2], 0xff, 0xfe, m[3], m[4], m[5]])
    snm = bytes([0x33, 0x33, 0xff, m[3], m[4], m[5]])
    sng = bytes.fromhex('ff0200000000000000000001ff') + m[3:6]
    ll4 = bytes([169, 254, m[4], m[5]])
    out = []
    for dm in (w.mac, snm, BCAST):
        for d6, tgt in ((ll, ll), (sng, ll), (w.my6, ll), (ll, w.my6)):
            out.append(eth(dm, w.cl_mac, 0x86dd, ipv6(w.cl6, d6, 58, icmp6(135, 0, bytes(4) + tgt + b'\x01\x01' + w.cl_mac, w.cl6, d6), hlim=255)))
        out.append(eth(dm, w.cl_mac, 0x86dd, ipv6(w.cl6, ll, 58, icmp6(128, 0, b'abcdefgh', w.cl6, ll))))
        out.append(eth(dm, w.cl_mac, 0x86dd, ipv6(w.cl6, ll, 6, lib.tcp(4000, 80, 1, 0, 2, src=w.cl6, dst=ll))))
        out.append(eth(dm, w.cl_mac, 0x86dd, ipv6(w.cl6, w.my6, 58, icmp6(128, 0, b'abcdefgh', w.cl6, w.my6))))
        out.append(eth(dm, w.cl_mac, 0x0800, ipv4(w.cl4, w.my4, 1, icmp(8, 0, b'abcdefgh'))))
        out.append(eth(dm, w.cl_mac, 0x0800, ipv4(w.cl4, ll4, 1, icmp(8, 0, b'abcdefgh'))))
        out.append(eth(dm, w.cl_mac, 0x0806, arp(1, w.cl_mac, w.cl4, bytes(6), ll4)))
        out.append(eth(dm, w.cl_mac, 0x0806, arp(1, w.cl_mac, w.cl4, bytes(6), w.my4)))
    return out


def gen_c02(rng, tier):
    cases = gen_mixed(rng, tier)
    w = World(rng, selfmode=True, denymode=True)
    step = 1 if tier == 'thorough' else 97
    frames = [eth(w.mac, w.cl_mac, ety, ipv4(w.cl4, w.my4, 1, icmp(8, 0, b'abcd'))) for ety in range(0, 65536, step)]
    for proto in range(256):
        frames.append(w.f4(proto, icmp(8, 0, b'abcdefgh') + bytes(20)))
        frames.append(w.f6(proto, icmp6(128, 0, b'abcdefgh', w.cl6, w.my6) + bytes(20)))
    cases.append(case(w, frames, ['ethertype-sweep', 'protocol-sweep']))
    cases.append(case(w, ethertype_frames(rng, w), ['ethertype-runts-and-tags']))
    cases.append(case(w, protocol_shape_frames(rng, w), ['protocol-sweep-shaped-payloads']))
    cases.append(case(w, mac_derived_frames(rng, w), ['mac-derived-addresses']))
    cases += sweep_cases(rng)
    # destination-address sweep: every kind of answerable request, addressed to group / broadcast / foreign /
    # second-self addresses, on every accepted destination MAC class, with and without a self-IP list
    for selfmode in (True, False):
        w = World(rng, selfmode=selfmode, denymode=True)
        frames = []
        macs = [w.mac, BCAST, bytes.fromhex('333300000001'), bytes([0x33, 0x33, 0xff]) + w.my6[13:16],
                bytes([1, 0, 0x5e, w.my4[1] & 0x7f, w.my4[2], w.my4[3]])]
        d6 = [ip6('ff02::1'), ip6('ff02::2'), bytes.fromhex('ff0200000000000000000001ff') + w.my6[13:16],
              bytes.fromhex('ff0200000000000000000001ff') + w.my6b[13:16], w.other6, w.my6b, w.my6, bytes(16)]
        d4 = [ip4('224.0.0.1'), ip4('255.255.255.255'), w.my4[:3] + b'\xff', w.other4, w.my4b, w.my4, bytes(4)]
        dns = struct.pack('>HHHHHH', 7, 0x0100, 1, 0, 0, 0) + b'\x01a\x00' + struct.pack('>HH', 1, 1)
        for dm in macs:
          for s6, s4 in ((w.cl6, w.cl4), (w.bad6, w.bad4)):      # an ordinary peer, a peer on the deny list
            for d in d6:
                for tgt in (w.my6, w.my6b):
                    ns = icmp6(135, 0, bytes(4) + tgt + b'\x01\x01' + w.cl_mac, s6, d)
                    frames.append(eth(dm, w.cl_mac, 0x86dd, ipv6(s6, d, 58, ns, hlim=255)))
                frames.append(eth(dm, w.cl_mac, 0x86dd, ipv6(s6, d, 58, icmp6(128, 0, b'abcdefgh', s6, d))))
                frames.append(eth(dm, w.cl_mac, 0x86dd, ipv6(s6, d, 6, lib.tcp(4000, 80, 1, 0, 2, src=s6, dst=d))))
                frames.append(eth(dm, w.cl_mac, 0x86dd, ipv6(s6, d, 17, lib.udp(4000, 53, dns, src=s6, dst=d))))
            for d in d4:
                frames.append(eth(dm, w.cl_mac, 0x0800, ipv4(s4, d, 1, icmp(8, 0, b'abcdefgh'))))
                frames.append(eth(dm, w.cl_mac, 0x0800, ipv4(s4, d, 6, lib.tcp(4000, 80, 1, 0, 2, src=s4, dst=d))))
                frames.append(eth(dm, w.cl_mac, 0x0800, ipv4(s4, d, 17, lib.udp(4000, 53, dns, src=s4, dst=d))))
                frames.append(eth(dm, w.cl_mac, 0x0806, arp(1, w.cl_mac, s4, bytes(6), d)))
        cases.append(case(w, frames, ['destination-sweep', 'self-list' if selfmode else 'no-self-list']))
    # self-IP lists of every shape (one address per family, a single family, three of a family) with the requests
    # that make a responder rewrite addresses or ports (STUN CHANGE-REQUEST flags incl. change-IP)
    for shape in range(6):
        w = World(rng, selfmode=True, denymode=False)
        w.self = [[w.my4, w.my6], [w.my4], [w.my6], [w.my4, w.my6, w.my6b], [w.my4, w.my4b, w.my6], [w.my4, w.my6, w.my4b, w.my6b]][shape]
        cases.append(case(w, stun_sweep_frames(rng, w, dports=(3478,), flagset=(0, 2, 4, 6)), ['self-list-shape-%d' % shape]))
    return cases


TCP_OPT_MSS = b'\x02\x04\x05\xb4'
TCP_OPT_LINUX = b'\x02\x04\x05\xb4\x04\x02\x08\x0a\x00\x11\x22\x33\x00\x00\x00\x00\x01\x03\x03\x07'


def gen_c06(rng, tier):
    cases = []
    nw = 2 if tier == 'quick' else 12
    for wi in range(nw):
        w = World(rng, selfmode=bool(wi % 2), denymode=False)
        for v6 in (False, True):
            frames = []
            for flags in range(512):
                seqs = [rng.choice([0, 1, 0x7fffffff, 0x80000000, 0xfffffffe, 0xffffffff, rng.below(1 << 32)])]
                if tier == 'thorough':
                    seqs += [0xffffffff, 0, rng.below(1 << 32)]
                for seq in seqs:
                    pl = rng.choice([b'', b'', b'x', rng.bytes(rng.below(20))])
                    sport, dport = rng.u16(), rng.u16()
                    s, d = w.addrs(v6)
                    ack = rng.choice([0, (w.cookie(s, d, sport, dport) + 1) & 0xffffffff, rng.below(1 << 32)])
                    # TCP options as real stacks send them on SYNs (MSS alone, the Linux set, window scale / SACK / timestamps in
                    # other orders, a malformed option), and other advertised windows
                    opts = rng.choice([b'', b'', b'', TCP_OPT_MSS, TCP_OPT_LINUX, b'\x01\x01' + TCP_OPT_MSS + b'\x01\x03\x03\x07',
                                       b'\x02\x04\xff\xff', b'\x02\x00\x00\x00', rng.bytes(4 * (1 + rng.below(3)))])
                    frames.append(w.tcp_frame(v6, sport, dport, seq, ack, flags, pl, opts=opts, doff=5 + len(opts) // 4,
                                              win=rng.choice([8192, 8192, 0, 1, 65535, 1024])))
            # history: some valid data first so that the table is not empty
            pre = [w.data_frame(v6, 1000 + k, 80, 5, b'GET / HTTP/1.1\r\n\r\n') for k in range(3)]
            # SYNs on the very tuples that now have a table entry (all SYN-bearing flag words the Linux rule
            # accepts or rejects, with and without payload, any acknowledgement number)
            s_, d_ = w.addrs(v6)
            est = []
            for k in range(3):
                for flags in (0x02, 0x42, 0x82, 0xc2, 0x0a, 0x22, 0x12, 0x06, 0x03, 0x102):
                    for pl in (b'', b'x'):
                        ack = rng.choice([0, (w.cookie(s_, d_, 1000 + k, 80) + 1) & 0xffffffff, rng.u32()])
                        est.append(w.tcp_frame(v6, 1000 + k, 80, rng.u32(), ack, flags, pl))
            cases.append(case(w, pre + est + frames, ['syn-grid', 'syn-on-established', 'v6' if v6 else 'v4']))
        # retransmission determinism and one-input-changed cookies
        frames = []
        for _ in range(60 if tier == 'quick' else 600):
            v6 = rng.chance(1, 2)
            sport, dport = rng.u16(), rng.u16()
            f = w.tcp_frame(v6, sport, dport, rng.u32(), 0, 2)
            frames += [f, f]
            if rng.chance(1, 3):
                # the retransmitted SYN 65 seconds / an hour / years later: still the same cookie
                frames += [tjump(rng.choice([65, 65, 3600, 86400, 40000000])), f, tjump(1), f]
            # the same source endpoint sweeping destinations / ports, back to back (one field changes at a time)
            s, d = w.addrs(v6)
            d2 = w.my6b if v6 else w.my4b
            s2 = bytes([s[0] ^ 1]) + s[1:]
            mk = lambda ss, dd, sp, dp: eth(w.mac, w.cl_mac, 0x86dd if v6 else 0x0800,
                                            (ipv6(ss, dd, 6, lib.tcp(sp, dp, 7, 0, 2, src=ss, dst=dd)) if v6 else
                                             ipv4(ss, dd, 6, lib.tcp(sp, dp, 7, 0, 2, src=ss, dst=dd))))
            frames += [mk(s, d, sport, dport), mk(s, d2, sport, dport), mk(s, d, sport, dport), mk(s2, d, sport, dport),
                       mk(s, d, sport ^ 1, dport), mk(s, d, sport, dport ^ 1), mk(s, d, sport, dport)]
            # SYNs whose source is itself a handled address (another one, or the destination: LAND-shaped) -- still SYNs
            frames += [mk(d2, d, sport, dport), mk(d, d, sport, dport), mk(d, d2, sport, dport)]
        cases.append(case(w, frames, ['syn-retransmit', 'syn-sweep']))
    return cases + gen_sticky(rng, tier, n=(40 if tier == 'quick' else 1000)) + sweep_cases(rng)


def gen_flows(rng, tier, nflows=4, steps=60):
    """scripted interleavings of several TCP flows with right/wrong acks, wrap-around values, noise"""
    cases = []
    n = 120 if tier == 'quick' else 3000
    for ci in range(n):
        w = World(rng, selfmode=rng.chance(1, 2), denymode=False, key=rng.choice([(0, 0), (rng.next(), rng.next())]))
        flows = []
        for _ in range(1 + rng.below(nflows)):
            flows.append([rng.chance(1, 2), rng.u16(), rng.choice([rng.u16(), rng.u16(), rng.choice(gen.PORTS)]), rng.u32(), b'', False])   # v6, sport, dport, seq, pending remainder, second address
        if ci % 5 == 1:
            # IPv4 endpoints and their IPv4-mapped IPv6 twins, same ports, both flows active
            w.cl6, w.my6 = bytes(10) + b'\xff\xff' + w.cl4, bytes(10) + b'\xff\xff' + w.my4
            if w.self is not None:
                w.self = [w.my4, w.my6, w.my4b, w.my6b]
            f0 = flows[0]
            flows = [f0, [not f0[0], f0[1], f0[2], rng.u32(), b'', False]] + flows[1:2]
        # relatives of a flow: same endpoints towards the second handled address; same ports in the other IP version
        if rng.chance(1, 2):
            f0 = flows[0]
            flows.append([f0[0], f0[1], f0[2], rng.u32(), b'', True])
            if rng.chance(1, 2):
                flows.append([not f0[0], f0[1], f0[2], rng.u32(), b'', False])
        frames = []
        prev = None
        for _ in range(steps):
            # relatives tend to follow each other directly (one-entry caches keyed by part of the tuple show there)
            fl = rng.choice(flows) if prev is None or rng.chance(2, 3) else rng.choice([x for x in flows if x[1] == prev[1]] or flows)
            prev = fl
            v6, sport, dport, seq, pending, second = fl
            s, d = w.addrs(v6, second)
            ck = w.cookie(s, d, sport, dport)
            # acknowledgement numbers of non-data segments: the valid cookie+1 is as likely as a random value
            some_ack = rng.choice([(ck + 1) & 0xffffffff, (ck + 1) & 0xffffffff, (ck + 1 + rng.below(400)) & 0xffffffff, rng.u32()])
            k = rng.below(12)
            if k <= 3:
                if pending and rng.chance(2, 3):
                    pl, fl[4] = pending, b''               # continuation of a request split earlier
                else:
                    _, _, pl = gen.gen_app(rng, tcp=True)
                    if rng.chance(1, 3) and len(pl) > 8:
                        cut = 1 + rng.below(len(pl) - 1)
                        pl, fl[4] = pl[:cut], pl[cut:]
                    else:
                        pl = pl[:rng.choice([len(pl), len(pl), len(pl), 1, 0, 3])]
                ackd = rng.choice([1, 1, 1, 1, 1, 0, 2, 0x80000000, 0xffffffff])
                frames.append(w.tcp_frame(v6, sport, dport, seq, (ck + ackd) & 0xffffffff, rng.choice([0x18, 0x18, 0x18, 0x19, 0x38, 0x1a]), pl, second=second))
                fl[3] = (seq + len(pl)) & 0xffffffff
            elif k == 4:
                frames.append(w.tcp_frame(v6, sport, dport, seq, 0, 0x18, b'x', second=second))          # ack = 0
            elif k == 5:
                frames.append(w.tcp_frame(v6, sport, dport, seq, some_ack, 0x02, second=second))
            elif k == 6:
                frames.append(w.tcp_frame(v6, sport, dport, seq, some_ack, 0x11, second=second))
            elif k == 7:
                frames.append(w.tcp_frame(v6, sport, dport, seq, some_ack, rng.choice([0x10, 0x04, 0x14]), second=second))
            elif k == 8:
                frames.append(w.tcp_frame(v6, sport, dport, seq, some_ack, rng.below(512), rng.bytes(rng.below(5)), second=second))
            elif k == 9:
                frames.append(w.udp_frame(v6, sport, dport, gen.gen_app(rng)[2], second=second))
            elif k == 10:
                frames.append(gen.gen_frame(rng, w)[1])
            else:
                # wrap-around: seq near 2^32
                fl[3] = rng.choice([0xffffffff, 0xfffffffe, 0])
        # Ethernet trailers: short frames padded to the 60-byte minimum (as NICs do), or a few stray trailing bytes
        frames = [(f + bytes(60 - len(f)) if len(f) < 60 and rng.chance(1, 3) else f + rng.bytes(1 + rng.below(6)) if rng.chance(1, 12) else f)
                  for f in frames]
        cases.append(case(w, frames, ['flows']))
    return cases


def pad60(frames):
    """short frames padded with zeros to the 60-byte Ethernet minimum, as a NIC delivers them"""
    return [f + bytes(60 - len(f)) if isinstance(f, (bytes, bytearray)) and len(f) < 60 else f for f in frames]


def gen_sticky(rng, tier, n=None):
    """one TCP connection that lives on after its first request: SYN, a complete valid request of one protocol (answered: the
    flow now owns a control block with a sticky protocol id and a reset parser), then follow-ups on the same 4-tuple --
    empty lines, single bytes, the request again, another protocol's request, a request cut in two, long unanswered data,
    and control segments (SYN, FIN|ACK with / without data, RST with sequence numbers at / inside / outside the receive
    window, bare ACK, data behind a wrong acknowledgement). Every third case has its short frames padded to 60 bytes."""
    cases = []
    n = n or (80 if tier == 'quick' else 2000)
    kinds = ['http', 'rpc', 'ssh', 'ghost', 'smb1', 'smb2', 'stun', 'stun-change-port', 'http', 'junk']
    M = 0xffffffff
    for i in range(n):
        w = World(rng, selfmode=rng.chance(1, 2), denymode=False, key=rng.choice([(0, 0), (rng.next(), rng.next())]))
        v6, second = rng.chance(1, 2), rng.chance(1, 4)
        sport, dport = rng.u16(), rng.choice(gen.PORTS + [rng.u16()] * 8)
        st = {'seq': rng.choice([rng.u32(), 0xffffff00 + rng.below(256), rng.below(64)])}
        kind = kinds[i % len(kinds)]
        chg = gen.stun_attr(3, struct.pack('>I', 2)) + gen.stun_attr(0x8022, bytes(252))
        mk = {'http': lambda: gen.gen_http(rng), 'rpc': lambda: gen.gen_rpc(rng, True), 'ssh': lambda: gen.gen_ssh(rng),
              'ghost': lambda: gen.gen_ghost(rng), 'smb1': lambda: gen.gen_smb1(rng), 'smb2': lambda: gen.gen_smb2(rng),
              'stun': lambda: gen.gen_stun_long(rng),
              'stun-change-port': lambda: b'\x00\x01' + struct.pack('>H', len(chg)) + b'\x21\x12\xa4\x42' + rng.bytes(12) + chg,
              'junk': lambda: rng.bytes(1 + rng.below(30))}
        first = mk[kind]()
        frames = []

        def data(pl, flags=0x18, ackdelta=1):
            frames.append(w.data_frame(v6, sport, dport, st['seq'], pl, flags=flags, ackdelta=ackdelta, second=second, win=rng.choice(gen.WINDOWS)))
            st['seq'] = (st['seq'] + len(pl)) & M

        def ctl(flags, seq=None, pl=b''):
            s_, d_ = w.addrs(v6, second)
            ack = rng.choice([(w.cookie(s_, d_, sport, dport) + 1) & M, rng.u32(), 0])
            frames.append(w.tcp_frame(v6, sport, dport, st['seq'] if seq is None else seq & M, ack, flags, pl, second=second))

        if rng.chance(2, 3):
            ctl(0x02, seq=st['seq'] - 1)
        data(first)
        for _ in range(2 + rng.below(7)):
            k = rng.below(16)
            if k == 0:
                data(b'\r\n')
            elif k == 1:
                data(rng.choice([b'\n', b'\r', b'\x00', b' ', b'\r\n\r\n', rng.bytes(1)]))
            elif k == 2:
                data(first)
            elif k == 3:
                data(mk[rng.choice(['http', 'rpc', 'ssh', 'ghost', 'smb1', 'smb2', 'stun'])]())
            elif k == 4:
                data(mk[kind if kind != 'stun-change-port' else 'stun']())
            elif k == 5:
                for _ in range(3):
                    data(rng.choice([b'x' * 4000, rng.bytes(4000), b'\x00' * 4000]))
            elif k == 6:
                ctl(rng.choice([0x02, 0x02, 0x42, 0xc2, 0x0a]), seq=rng.u32(), pl=rng.choice([b'', b'', b'x']))
            elif k == 7:
                ctl(0x11)
            elif k == 8:
                ctl(0x11, pl=rng.choice([b'x', mk['http'](), first]))
            elif k == 9:
                ctl(rng.choice([0x04, 0x04, 0x14]), seq=st['seq'] + rng.choice([0, 1, 2, 17, 1000, 65534, 65535, 65536, 70000, -1, -2, rng.u32()]))
            elif k == 10:
                ctl(0x10)
            elif k == 11:
                data(mk['http'](), ackdelta=rng.choice([2, 0, 0x80000000]))
            elif k == 12:
                data(rng.choice([b'\r\n', b'\n', b'\x00']) + mk[kind if kind != 'stun-change-port' else 'stun']())
            elif k == 13:
                pl = mk[kind if kind not in ('stun-change-port', 'junk') else 'http']()
                if len(pl) > 2:
                    cut = 1 + rng.below(len(pl) - 1)
                    data(pl[:cut])
                    if rng.chance(1, 3):
                        ctl(0x10)
                    data(pl[cut:])
            elif k == 14 and rng.chance(1, 2):
                frames.append(tjump(rng.choice([1, 61, 65, 130, 3600, 86400, 40000000])))     # time passes on the connection
            elif k == 14:
                # the cookie-less 20-byte binding request (only a flow already identified as STUN hands it to the responder)
                data(b'\x00\x01\x00\x00' + rng.bytes(16))
            else:
                data(mk['stun-change-port']())
        if i % 3 == 0:
            frames = pad60(frames)
        cases.append(case(w, frames, ['sticky-flow', 'first:' + kind] + (['eth-padded'] if i % 3 == 0 else [])))
    return cases


def realistic_acks(cases, stop_at_unanswered=False):
    """Rewrite the acknowledgement numbers of a case the way a conforming client would send them: cookie + 1 + the number of
    application bytes the responder has sent on that connection so far (a first run of the implementation tells how many;
    masscanned itself never looks at the acknowledgement number of an established connection, so the second run must give
    the same answers)."""
    run_cases(cases, want_model=False)
    out = []
    for c in cases:
        key = c['ops'][0][1]['key']
        sent, ops = {}, []
        for o, b in zip(c['ops'], c['impl'] + [None] * (len(c['ops']) - len(c['impl']))):
            if o[0] != 'F' or flow_key(o[1]) is None or b is None:
                ops.append(o)
                continue
            f, fk = o[1], flow_key(o[1])
            ck = cookie(key, fk[1], fk[2], struct.unpack('>H', fk[3])[0], struct.unpack('>H', fk[4])[0])
            l4 = 14 + ((f[14] & 15) * 4 if fk[0] == 4 else 40)
            ack = struct.unpack('>I', f[l4 + 8:l4 + 12])[0]
            if (f[l4 + 13] & 0x10) and ack == (ck + 1) & 0xffffffff and sent.get(fk):
                g = bytearray(f)
                g[l4 + 8:l4 + 12] = struct.pack('>I', (ck + 1 + sent[fk]) & 0xffffffff)
                f = refix(bytes(g))
            ops.append(('F', f))
            got = 0
            if outcome(b['r'] or '-') == 'reply':
                d = split_reply(bytes.fromhex(b['r'].split()[0]))
                got = len(d.get('app') or b'')
                sent[fk] = sent.get(fk, 0) + got + (1 if 'tcp' in d and d['tcp'][4] & 0x01 else 0)   # a FIN takes one sequence number (the SYN's is in cookie + 1)
            if stop_at_unanswered and got == 0 and (f[l4 + 13] & 0x18) == 0x18 and len(f) > l4 + 20:
                break       # a request that is not answered leaves the parser where it is: what follows is not a fresh request
        out.append({'ops': ops, 'tags': c['tags'] + ['realistic-acks']})
    return out


def gen_reuse(rng, tier, n=None):
    """a single 4-tuple (or two) living through several connections: complete requests of different
    protocols, SYNs, FINs, RSTs in sequence — exercises stale per-flow state"""
    cases = []
    n = n or (150 if tier == 'quick' else 4000)
    for _ in range(n):
        w = World(rng, selfmode=False, denymode=False)
        flows = [[rng.chance(1, 2), rng.u16(), rng.u16(), rng.u32()] for _ in range(1 + rng.below(2))]
        frames = []
        for _ in range(4 + rng.below(10)):
            fl = rng.choice(flows)
            v6, sport, dport, seq = fl
            k = rng.below(8)
            if k <= 3:
                kind, fault, pl = gen.gen_app(rng, tcp=True, kinds=['http', 'rpc', 'ssh', 'smb1', 'smb2', 'ghost', 'http', 'rpc'])
                if rng.chance(1, 4) and len(pl) > 6:
                    cut = 1 + rng.below(len(pl) - 1)
                    frames.append(w.data_frame(v6, sport, dport, seq, pl[:cut]))
                    seq = (seq + cut) & 0xffffffff
                    pl = pl[cut:]
                frames.append(w.data_frame(v6, sport, dport, seq, pl))
                fl[3] = (seq + len(pl)) & 0xffffffff
            elif k == 4:
                frames.append(w.tcp_frame(v6, sport, dport, rng.u32(), 0, 0x02))
            elif k == 5:
                frames.append(w.tcp_frame(v6, sport, dport, seq, rng.u32(), 0x11))
            elif k == 6:
                frames.append(w.tcp_frame(v6, sport, dport, seq, rng.u32(), rng.choice([0x04, 0x10, 0x14])))
            else:
                frames.append(w.udp_frame(v6, sport, dport, gen.gen_app(rng)[2]))
        cases.append(case(w, frames, ['flow-reuse']))
    return cases


def gen_c09(rng, tier):
    cases = gen_flows(rng, tier, nflows=6, steps=(150 if tier == 'quick' else 400)) + gen_sticky(rng, tier)
    # SYN flood + wrong-ack flood
    for _ in range(2 if tier == 'quick' else 20):
        w = World(rng, selfmode=False, denymode=False)
        frames = []
        for i in range(400 if tier == 'quick' else 4000):
            v6 = rng.chance(1, 2)
            k = rng.below(4)
            if k == 0:
                frames.append(w.tcp_frame(v6, rng.u16(), rng.u16(), rng.u32(), rng.u32(), 0x02 | rng.choice([0, 8, 0x20, 0x40, 0x80])))
            elif k == 1:
                frames.append(w.tcp_frame(v6, rng.u16(), rng.u16(), rng.u32(), rng.u32(), 0x18, b'GET / HTTP/1.1\r\n\r\n'))
            elif k == 2:
                frames.append(w.tcp_frame(v6, rng.u16(), rng.u16(), rng.u32(), rng.u32(), rng.choice([0x10, 0x11, 0x04, 0x01])))
            else:
                frames.append(w.udp_frame(v6, rng.u16(), rng.u16(), gen.gen_app(rng)[2]))
        cases.append(case(w, frames, ['flood']))
    # the complete handshake without data, on every port a responder might single out: SYN, the ACK that acknowledges the cookie,
    # and control segments behind it -- none of them may create state
    for v6 in (False, True):
        w = World(rng, selfmode=False, denymode=False)
        frames = []
        s_, d_ = w.addrs(v6)
        for dport in gen.PORTS + [rng.u16(), 0, 65535]:
            sport = rng.u16()
            ck = w.cookie(s_, d_, sport, dport)
            frames += [w.tcp_frame(v6, sport, dport, 100, 0, 0x02), w.tcp_frame(v6, sport, dport, 101, (ck + 1) & 0xffffffff, 0x10),
                       w.tcp_frame(v6, sport, dport, 101, (ck + 1) & 0xffffffff, 0x10), w.tcp_frame(v6, sport, dport, 101, (ck + 1) & 0xffffffff, 0x11),
                       w.tcp_frame(v6, sport, dport, 102, (ck + 1) & 0xffffffff, 0x04), w.tcp_frame(v6, sport, dport, 101, (ck + 1) & 0xffffffff, 0x10)]
        cases.append(case(w, frames, ['handshake-without-data']))
        # segments that carry data but do not validate the flow: every flag word without PSH+ACK, with a payload, and PSH|ACK whose
        # acknowledgement number differs from cookie+1 in ways a sloppy comparison might miss (bytes permuted, byte differences that
        # XOR / add up to zero, only one byte compared)
        frames = []
        for dport in (80, 22, rng.u16()):
            for flags in (0x11, 0x10, 0x04, 0x14, 0x01, 0x02, 0x12, 0x08, 0x19 & ~0x08, 0x31, 0x00, 0x29):
                sport = rng.u16()
                ck = w.cookie(s_, d_, sport, dport)
                frames.append(w.tcp_frame(v6, sport, dport, 100, (ck + 1) & 0xffffffff, flags, b'GET / HTTP/1.1\r\n\r\n'))
            sport = rng.u16()
            good = (w.cookie(s_, d_, sport, dport) + 1) & 0xffffffff
            b = list(struct.pack('>I', good))
            wrong = {good ^ 0x01010000, good ^ 0x00000101, good ^ 0x01000001, good ^ 0xffffffff, good ^ 0x80808080, (good + 0x01000000) & 0xffffffff,
                     (good & 0xffffff00) | ((good + 1) & 0xff), (good & 0x00ffffff) | ((((good >> 24) + 1) & 0xff) << 24),
                     struct.unpack('>I', bytes([b[1], b[0], b[2], b[3]]))[0], struct.unpack('>I', bytes([b[3], b[2], b[1], b[0]]))[0],
                     struct.unpack('>I', bytes([b[0] ^ 5, b[1] ^ 5, b[2], b[3]]))[0], struct.unpack('>I', bytes([b[0] ^ 0x80, b[1], b[2] ^ 0x80, b[3]]))[0]} - {good}
            for a in sorted(wrong):
                frames.append(w.tcp_frame(v6, sport, dport, 100, a, 0x18, b'GET / HTTP/1.1\r\n\r\n'))
        cases.append(case(w, frames, ['data-without-validation']))
        # error messages about our packets of flows that never validated (and of one that did): no state either
        frames = []
        for dport in (80, 22, rng.u16()):
            sport = rng.u16()
            key = (6 if v6 else 4, s_, d_, struct.pack('>H', sport), struct.pack('>H', dport))
            frames += [w.tcp_frame(v6, sport, dport, 100, 0, 0x02)] + icmp_errors_about(w.mac, key) + [w.data_frame(v6, sport, dport, 101, b'GET / HTTP/1.1\r\n\r\n')] + icmp_errors_about(w.mac, key)
            frames += icmp_errors_about(w.mac, (key[0], s_, d_, struct.pack('>H', sport ^ 1), struct.pack('>H', dport)))
        cases.append(case(w, frames, ['icmp-errors-about-flows']))
    return cases


LEVELS = ['off', 'error', 'warn', 'info', 'debug', 'trace']
LOGGERS = ['none', 'console', 'logfmt']


def hostile_frames(rng, w, n):
    """valid application exchanges of every protocol, then mutated (truncations, lying lengths, hostile TLVs)"""
    frames = []
    for _ in range(n):
        v6 = rng.chance(1, 2)
        k = rng.below(10)
        if k <= 3:
            kind, fault, pl = gen.gen_app(rng, tcp=False)
            if rng.chance(1, 2):
                pl = gen.mutate(rng, pl)
            f = w.udp_frame(v6, rng.u16(), rng.u16(), pl)
        elif k <= 6:
            kind, fault, pl = gen.gen_app(rng, tcp=True)
            if rng.chance(1, 2):
                pl = gen.mutate(rng, pl)
            sport = rng.u16()
            f = w.data_frame(v6, sport, rng.choice([80, 22, 445, 111, rng.u16()]), rng.u32(), pl)
            if rng.chance(1, 3) and len(pl) > 1:
                # segmented: send the two halves on the same flow
                cut = 1 + rng.below(len(pl) - 1)
                dport = rng.u16()
                frames.append(w.data_frame(v6, sport, dport, 5, pl[:cut]))
                f = w.data_frame(v6, sport, dport, 5 + cut, pl[cut:])
        elif k == 7:
            f = gen.gen_frame(rng, w)[1]
        elif k == 8:
            # ND-NS with hostile options / short
            tgt = rng.choice([w.my6, rng.bytes(16)])
            rest = bytes(4) + tgt + rng.choice([b'', bytes([1, rng.below(256)]) + rng.bytes(rng.below(40)), rng.bytes(rng.below(30))])
            rest = rest[:rng.choice([len(rest), len(rest), rng.below(len(rest) + 1)])]
            f = w.f6(58, icmp6(135, rng.choice([0, 0, 1]), rest, w.cl6, w.my6))
        else:
            f = rng.bytes(rng.choice([0, 1, 13, 14, 15, 33, 34, 53, 54, rng.below(80)]))
        if rng.chance(1, 5):
            f = gen.mutate(rng, f)
        frames.append(f[:4096])
    return frames


def probe_frames(w):
    """a small deterministic set of requests whose fields feed log arguments and parsers at every configuration:
    DNS names with every label length off by -2..+3, HTTP targets with non-UTF-8 / control bytes, SSH banners with
    odd line ends, STUN attributes with lying lengths — over UDP/IPv4 and as a first TCP segment"""
    out = []
    base = [b'www', b'example', b'com']
    for i in range(len(base)):
        for delta in (-2, -1, 1, 2, 3, 60):
            nm = b''.join(bytes([max(0, min(63, len(l) + (delta if j == i else 0)))]) + l for j, l in enumerate(base)) + b'\x00'
            q = struct.pack('>HHHHHH', 0x1234, 0x0100, 1, 0, 0, 0) + nm + struct.pack('>HH', 1, 1)
            out.append(w.udp_frame(False, 40000, 53, q))
    for nm in (b'\x02\x00', b'\x01\x00', b'\x3f' + b'a' * 10 + b'\x00', b'\xc0\x0c', b'\x00'):
        out.append(w.udp_frame(False, 40000, 53, struct.pack('>HHHHHH', 1, 0x0100, 1, 0, 0, 0) + nm + struct.pack('>HH', 1, 1)))
    for tgt in (b'/\xff\xfe', b'/\x00', b'/%00', b'/' + b'\xc3', b'/a b', b'/\r'):
        out.append(w.data_frame(False, 40001 + len(out), 80, 7, b'GET ' + tgt + b' HTTP/1.1\r\nHost: \xff\r\n\r\n'))
    for b in (b'SSH-2.0-\xff\r\n', b'SSH-2.0-x\r\r\n', b'SSH-2.0-x\n', b'SSH-1.99-\x00\r\n'):
        out.append(w.data_frame(False, 41001 + len(out), 22, 7, b))
    # SMB1 negotiate requests whose dialect names (kept as text by the responder) have every length up to 70 and end in / consist of
    # octets that are not ASCII
    for L in list(range(1, 71)) + [127, 128, 255, 256]:
        for name in (b'A' * (L - 1) + b'\xe9', b'\xe9' * L):
            blob = b'\x02' + name + b'\x00' + b'\x02NT LM 0.12\x00'
            p = b'\xffSMB\x72' + bytes(4) + b'\x18' + bytes(2) + bytes(2) + bytes(8) + bytes(2) + bytes(8) + b'\x00' + struct.pack('<H', len(blob)) + blob
            out.append(w.udp_frame(False, 40000, 445, bytes([0, 0, len(p) >> 8, len(p) & 255]) + p))
    for a in (b'\x00\x03\xff\xff', b'\x00\x01\x00\x08\x00\x03', b'\x80\x22\x00\x05abc'):
        out.append(w.udp_frame(False, 40000, 3478, b'\x00\x01' + struct.pack('>H', len(a)) + b'\x21\x12\xa4\x42' + bytes(12) + a))
    return out


def gen_c01(rng, tier):
    cases = []
    per = 120 if tier == 'quick' else 1500
    for si in range(2):
        for di in range(2):
            for lg in LOGGERS:
                for lv in LEVELS:
                    w = World(rng, selfmode=bool(si), denymode=bool(di), logger=lg, level=lv)
                    cases.append(case(w, hostile_frames(rng, w, per) + probe_frames(w) + ethertype_frames(rng, w), ['hostile', 'logger:' + lg, 'level:' + lv]))
    # flow-reuse histories: a few 4-tuples that see SYN / data of different protocols / FIN / RST in sequence
    # (stale per-flow parser state, poisoned-mutex cascades)
    for fc in gen_flows(rng, tier, nflows=3, steps=80)[: (40 if tier == 'quick' else 1000)] + gen_reuse(rng, tier) + gen_sticky(rng, tier):
        cfg = fc['ops'][0][1]
        cfg['logger'] = rng.choice(LOGGERS)
        cfg['level'] = rng.choice(LEVELS)
        fc['tags'] = ['flow-reuse', 'logger:' + cfg['logger'], 'level:' + cfg['level']]
        cases.append(fc)
    return cases


def gen_c20(rng, tier):
    cases = []
    for lg in ('console', 'logfmt'):
        w = World(rng, selfmode=False, denymode=False, logger=lg, key=(0, 0))
        frames = []
        for i in range(4500 if tier == 'quick' else 70000):
            sp = 1024 + (i % 60000)
            w.cl4 = bytes([11 + (i >> 16), (i >> 8) & 255, i & 255, 9])
            if i % 4 == 0:
                frames.append(w.tcp_frame(False, sp, 80, 1, 0, 2))
            frames.append(w.data_frame(False, sp, 80, 2, b'xx'))
        cases.append(case(w, frames, ['many-flows', 'logger:' + lg]))
    n = 80 if tier == 'quick' else 1500
    for i in range(n):
        w = World(rng, selfmode=[True, False][i % 2], denymode=[True, False][(i // 2) % 2], logger=['console', 'logfmt'][(i // 4) % 2])
        frames = []
        tags = set(['logger:' + w.logger])
        for _ in range(60):
            if rng.chance(1, 3):
                frames += hostile_frames(rng, w, 1)
            else:
                t, f = gen.gen_frame(rng, w)
                frames.append(f)
                tags.update(t)
        cases.append(case(w, frames, sorted(tags)))
    for fc in gen_sticky(rng, tier, n=(30 if tier == 'quick' else 600)):
        fc['ops'][0][1]['logger'] = rng.choice(['console', 'logfmt'])
        fc['tags'].append('logger:' + fc['ops'][0][1]['logger'])
        cases.append(fc)
    for lg in ('console', 'logfmt'):
        w = World(rng, selfmode=False, denymode=False, logger=lg)
        cases.append(case(w, stun_sweep_frames(rng, w, dports=(3478, 65535, 65534, 0), flagset=(0, 2, 4, 6)), ['stun-rewrite-sweep', 'logger:' + lg]))
        cases.append(case(w, protocol_shape_frames(rng, w) + mac_derived_frames(rng, w), ['protocol-sweep-shaped-payloads', 'mac-derived-addresses', 'logger:' + lg]))
    return cases + sweep_cases(rng, 'console') + sweep_cases(rng, 'logfmt')


def refix(frame):
    """recompute the IPv4 header checksum and the TCP checksum of a well-formed frame after a header field was patched"""
    f = bytearray(frame)
    ety = struct.unpack('>H', f[12:14])[0]
    if ety == 0x0800:
        ihl = (f[14] & 15) * 4
        f[24:26] = b'\0\0'
        f[24:26] = struct.pack('>H', csum16(bytes(f[14:14 + ihl])))
        proto, l4, src, dst = f[23], 14 + ihl, bytes(f[26:30]), bytes(f[30:34])
    elif ety == 0x86dd:
        proto, l4, src, dst = f[20], 54, bytes(f[22:38]), bytes(f[38:54])
    else:
        return bytes(f)
    if proto == 6 and len(f) >= l4 + 20:
        f[l4 + 16:l4 + 18] = b'\0\0'
        f[l4 + 16:l4 + 18] = struct.pack('>H', csum16(pseudo(src, dst, 6, len(f) - l4) + bytes(f[l4:])))
    return bytes(f)


def field_sweep(rng, w):
    """one header field at a time: every kind of answerable request (echo, NS, SYN, data segment behind a valid cookie, DNS / STUN
    datagram, over IPv4 and IPv6) with one field of its IP or TCP header set to boundary values -- TOS / traffic class, flow label,
    identification, DF / MF / reserved flag, fragment offset, TTL / hop limit, version nibble, TCP reserved bits and NS, window,
    urgent pointer -- checksums recomputed"""
    dns = struct.pack('>HHHHHH', 7, 0x0100, 1, 0, 0, 0) + b'\x01a\x00' + struct.pack('>HH', 1, 1)
    stun = b'\x00\x01\x00\x00' + rng.bytes(16)
    base = []
    for v6 in (False, True):
        s_, d_ = w.addrs(v6)
        base += [w.fip(v6, 58 if v6 else 1, icmp6(128, 0, b'abcdefgh', s_, d_) if v6 else icmp(8, 0, b'abcdefgh')),
                 w.tcp_frame(v6, 4000, 80, 1, 0, 2), w.data_frame(v6, 4001, 80, 7, b'GET / HTTP/1.1\r\n\r\n'),
                 w.udp_frame(v6, 4002, 53, dns), w.udp_frame(v6, 4003, 3478, stun)]
    base.append(eth(w.mac, w.cl_mac, 0x86dd, ipv6(w.cl6, w.my6, 58, icmp6(135, 0, bytes(4) + w.my6 + b'\x01\x01' + w.cl_mac, w.cl6, w.my6), hlim=255)))
    out = []
    for f in base:
        out.append(f)
        v6 = f[12:14] == b'\x86\xdd'
        if v6:
            patches = [(14, x) for x in (b'\x6f\xf0\x00\x00', b'\x60\x0f\xff\xff', b'\x6f\xff\xff\xff', b'\x50\x00\x00\x00', b'\x70\x00\x00\x00', b'\x60\x00\x00\x01')]
            patches += [(21, bytes([x])) for x in (0, 1, 2, 254, 255)]
            l4, proto = 54, f[20]
        else:
            patches = [(15, bytes([x])) for x in (1, 3, 0xfc, 0xff)] + [(18, x) for x in (b'\x00\x00', b'\xff\xff')]
            patches += [(20, x) for x in (b'\x40\x00', b'\x80\x00', b'\xc0\x00', b'\x20\x00', b'\x00\x01', b'\x1f\xff', b'\x3f\xff')]
            patches += [(22, bytes([x])) for x in (0, 1, 2, 254, 255)] + [(14, bytes([x])) for x in (0x55, 0x65, 0x35)]
            l4, proto = 34, f[23]
        if proto == 6:
            patches += [(l4 + 12, bytes([f[l4 + 12] | x])) for x in (1, 2, 4, 8, 0x0f)] + [(l4 + 14, x) for x in (b'\x00\x00', b'\x00\x01', b'\xff\xff')]
            patches += [(l4 + 18, x) for x in (b'\xff\xff', b'\x00\x01')] + [(l4 + 13, bytes([f[l4 + 13] | 0x20]))]
        for off, val in patches:
            g = bytearray(f)
            g[off:off + len(val)] = val
            out.append(refix(bytes(g)))
        if v6:
            # extension headers between the IPv6 header and the transport: hop-by-hop, destination options, routing, fragment
            # (offset 0, no more fragments), authentication header (its length counts 4-byte units, minus 2), two of them
            nh = f[20]
            def ext(kind, nxt):
                if kind == 44:
                    return bytes([nxt, 0, 0, 0]) + b'\x00\x00\x00\x01'
                if kind == 51:
                    return bytes([nxt, 4, 0, 0]) + bytes(20)
                return bytes([nxt, 0, 1, 4, 0, 0, 0, 0])
            for chain in ((0,), (60,), (43,), (44,), (51,), (0, 60), (60, 51), (51, 60)):
                hdrs, nxt = b'', nh
                for kind in reversed(chain):
                    hdrs, nxt = ext(kind, nxt) + hdrs, kind
                g = bytearray(f[:54]) + hdrs + f[54:]
                g[20] = nxt
                g[18:20] = struct.pack('>H', len(g) - 54)
                out.append(bytes(g))
        else:
            # IPv4 options in front of the transport: NOPs + EOL, router alert, record route, the maximum of 40 bytes
            for opts in (b'\x01\x01\x01\x00', b'\x94\x04\x00\x00', b'\x07\x07\x04\x00\x00\x00\x00\x00', b'\x01' * 40, b'\x44\x04\x05\x00'):
                ihl = 5 + len(opts) // 4
                g = bytearray(f[:34]) + opts + f[34:]
                g[14] = 0x40 | ihl
                g[16:18] = struct.pack('>H', len(g) - 14)
                out.append(refix(bytes(g)))
    return out


def l24_request_sweep(rng, w):
    """every kind of layer 2-4 request on every accepted destination MAC class (own, broadcast, all-nodes, the IPv4-multicast /
    solicited-node mappings of the handled addresses), from ordinary and special sources (unspecified, link-local, loopback)"""
    macs = [w.mac, BCAST, bytes.fromhex('333300000001'), bytes([0x33, 0x33, 0xff]) + w.my6[13:16],
            bytes([1, 0, 0x5e, w.my4[1] & 0x7f, w.my4[2], w.my4[3]])]
    frames = []
    for dm in macs:
        for s6 in (w.cl6, bytes(16), ip6('fe80::7'), ip6('::1')):
            frames.append(eth(dm, w.cl_mac, 0x86dd, ipv6(s6, w.my6, 58, icmp6(128, 0, b'abcdefgh', s6, w.my6))))
            sn = bytes.fromhex('ff0200000000000000000001ff') + w.my6[13:16]
            # with and without options (source link-layer address, an unknown option, two options), whatever the source
            for opt in (b'', b'\x01\x01' + w.cl_mac, b'\x0e\x01' + bytes(6), b'\x0e\x01' + bytes(6) + b'\x01\x01' + w.cl_mac,
                        b'\x01\x01\x02\xde\xad\xbe\xef\x02', b'\x02\x01\x02\xde\xad\xbe\xef\x02'):
                for d6 in (w.my6, sn):
                    ns = icmp6(135, 0, bytes(4) + w.my6 + opt, s6, d6)
                    frames.append(eth(dm, w.cl_mac, 0x86dd, ipv6(s6, d6, 58, ns, hlim=255)))
            frames.append(eth(dm, w.cl_mac, 0x86dd, ipv6(s6, w.my6, 6, lib.tcp(4000, 80, 1, 0, 2, src=s6, dst=w.my6))))
        # the IPv4-mapped / IPv4-compatible forms of the handled IPv4 address as IPv6 destination and as solicited target
        for m6 in (bytes(10) + b'\xff\xff' + w.my4, bytes(12) + w.my4):
            frames.append(eth(dm, w.cl_mac, 0x86dd, ipv6(w.cl6, m6, 58, icmp6(128, 0, b'abcdefgh', w.cl6, m6))))
            frames.append(eth(dm, w.cl_mac, 0x86dd, ipv6(w.cl6, m6, 58, icmp6(135, 0, bytes(4) + m6 + b'\x01\x01' + w.cl_mac, w.cl6, m6), hlim=255)))
            frames.append(eth(dm, w.cl_mac, 0x86dd, ipv6(w.cl6, w.my6, 58, icmp6(135, 0, bytes(4) + m6 + b'\x01\x01' + w.cl_mac, w.cl6, w.my6), hlim=255)))
            frames.append(eth(dm, w.cl_mac, 0x86dd, ipv6(w.cl6, m6, 6, lib.tcp(4000, 80, 1, 0, 2, src=w.cl6, dst=m6))))
        # requests of every kind whose source is itself a handled address (the second one of the family, or the destination)
        stun = b'\x00\x01\x00\x08' + bytes(16) + b'\x00\x03\x00\x04\x00\x00\x00\x02'
        dnsq = struct.pack('>HHHHHH', 7, 0x0100, 1, 0, 0, 0) + b'\x01a\x00' + struct.pack('>HH', 1, 1)
        for s4h, s6h in ((w.my4b, w.my6b), (w.my4, w.my6)):
            for pl, dp in ((stun, 3478), (dnsq, 53), (b'GET / HTTP/1.1\r\n\r\n', 80)):
                frames.append(eth(dm, w.cl_mac, 0x0800, ipv4(s4h, w.my4, 17, lib.udp(65535, dp, pl, src=s4h, dst=w.my4))))
                frames.append(eth(dm, w.cl_mac, 0x86dd, ipv6(s6h, w.my6, 17, lib.udp(65535, dp, pl, src=s6h, dst=w.my6))))
            ck4, ck6 = w.cookie(s4h, w.my4, 4100, 80), w.cookie(s6h, w.my6, 4100, 80)
            frames.append(eth(dm, w.cl_mac, 0x0800, ipv4(s4h, w.my4, 6, lib.tcp(4100, 80, 5, (ck4 + 1) & 0xffffffff, 0x18, b'GET / HTTP/1.1\r\n\r\n', src=s4h, dst=w.my4))))
            frames.append(eth(dm, w.cl_mac, 0x86dd, ipv6(s6h, w.my6, 6, lib.tcp(4100, 80, 5, (ck6 + 1) & 0xffffffff, 0x18, b'GET / HTTP/1.1\r\n\r\n', src=s6h, dst=w.my6))))
            frames.append(eth(dm, w.cl_mac, 0x0800, ipv4(s4h, w.my4, 1, icmp(8, 0, b'abcdefgh'))))
            frames.append(eth(dm, w.cl_mac, 0x86dd, ipv6(s6h, w.my6, 58, icmp6(128, 0, b'abcdefgh', s6h, w.my6))))
        for s4 in (w.cl4, bytes(4), ip4('169.254.1.1'), ip4('127.0.0.1')):
            frames.append(eth(dm, w.cl_mac, 0x0800, ipv4(s4, w.my4, 1, icmp(8, 0, b'abcdefgh'))))
            frames.append(eth(dm, w.cl_mac, 0x0800, ipv4(s4, w.my4, 6, lib.tcp(4000, 80, 1, 0, 2, src=s4, dst=w.my4))))
            frames.append(eth(dm, w.cl_mac, 0x0806, arp(1, w.cl_mac, s4, bytes(6), w.my4)))
    return frames + field_sweep(rng, w)


def sweep_cases(rng, logger=None):
    """the request x MAC x source sweep and the one-field-at-a-time header sweep, with and without a self-IP list"""
    out = []
    for selfmode in (True, False):
        w = World(rng, selfmode=selfmode, denymode=False, logger=logger or 'none')
        out.append(case(w, l24_request_sweep(rng, w), ['request-mac-source-sweep', 'header-field-sweep'] + (['logger:' + logger] if logger else [])))
    return out


def gen_c05(rng, tier):
    cases = []
    nw = 16 if tier == 'quick' else 200
    for wi in range(nw):
        w = World(rng, selfmode=bool(wi % 2), denymode=bool((wi // 2) % 2))
        frames = []
        # ARP: operations, field variants, handled / unhandled targets
        for op in [1, 1, 1, 2, 0, 3, 4, 8, 65535, rng.below(65536)]:
            for tpa in [w.my4, w.other4, rng.bytes(4)]:
                frames.append(eth(rng.choice([BCAST, w.mac]), w.cl_mac, 0x0806,
                                  arp(op, w.cl_mac, w.cl4, rng.choice([bytes(6), rng.bytes(6)]), tpa,
                                      pad=rng.choice([b'', bytes(18), rng.bytes(rng.below(20))]))))
        # senders: on the deny list, a handled address (gratuitous / probe), zero, the responder's own MAC as source
        for spa in [w.bad4, w.my4, w.my4b, bytes(4), bytes([255] * 4)]:
            for smac in [w.cl_mac, w.mac]:
                frames.append(eth(BCAST, smac, 0x0806, arp(1, smac, spa, bytes(6), w.my4)))
        for smac in [w.mac, BCAST, bytes(6)]:
            frames.append(eth(w.mac, smac, 0x0800, ipv4(w.cl4, w.my4, 1, icmp(8, 0, b'abcdefgh'))))
            frames.append(eth(w.mac, smac, 0x86dd, ipv6(w.cl6, w.my6, 58, icmp6(128, 0, b'abcdefgh', w.cl6, w.my6))))
        for _ in range(10):
            frames.append(eth(BCAST, w.cl_mac, 0x0806, arp(1, w.cl_mac, w.cl4, bytes(6), w.my4, htype=rng.choice([1, 6, 0]),
                                                            ptype=rng.choice([0x0800, 0x86dd]), hlen=rng.choice([6, 8]), plen=rng.choice([4, 16]))))
        # ICMPv4 / ICMPv6 type x code grids (sampled in quick, exhaustive over the cross in thorough)
        types4 = [8, 0, 3, 5, 11, 13, 15, 17] + [rng.below(256) for _ in range(8 if tier == 'quick' else 60)]
        types6 = [128, 135, 129, 136, 133, 134, 1, 2, 3] + [rng.below(256) for _ in range(8 if tier == 'quick' else 60)]
        if tier == 'thorough' and wi < 2:
            # exhaustive 256 x 256 type/code grid for both ICMP versions
            for ty in range(256):
                for code in range(256):
                    frames.append(w.f4(1, icmp(ty, code, b'\x00\x01\x00\x02xy')))
                    if ty != 135:
                        frames.append(w.f6(58, icmp6(ty, code, b'\x00\x01\x00\x02xy', w.cl6, w.my6)))
        codes = [0, 0, 1, 255, rng.below(256)] + ([rng.below(256) for _ in range(10)] if tier == 'thorough' else [])
        for ty in types4:
            for code in codes:
                ln = rng.choice([0, 1, 4, 8, 13, 56, 100, 1472, 1473, 1475, 1476, rng.below(1477), 1468 + rng.below(9)])
                frames.append(w.f4(1, icmp(ty, code, rng.bytes(ln)), dst=rng.choice([None, None, None, w.other4])))
        for ty in types6:
            for code in codes:
                dst = rng.choice([None, None, None, w.other6])
                if ty == 135:
                    tgt = rng.choice([w.my6, w.my6, w.my6b, w.other6])
                    rest = bytes(4) + tgt + rng.choice([b'', bytes([1, 1]) + w.cl_mac, rng.bytes(8)])
                    if rng.chance(1, 6):
                        rest = rest[:rng.below(len(rest))]
                    sn = bytes.fromhex('ff0200000000000000000001ff') + tgt[13:]
                    frames.append(eth(rng.choice([w.mac, bytes([0x33, 0x33, 0xff]) + tgt[13:]]), w.cl_mac, 0x86dd,
                                      ipv6(w.cl6, rng.choice([sn, w.my6, w.my6b]), 58, icmp6(135, code, rest, w.cl6, sn))))
                else:
                    ln = rng.choice([0, 1, 4, 8, 13, 56, 100, 1452, 1455, 1456, rng.below(1457), 1448 + rng.below(9)])
                    frames.append(w.f6(58, icmp6(ty, code, rng.bytes(ln), w.cl6, dst or w.my6), dst=dst))
        frames += l24_request_sweep(rng, w)
        cases.append(case(w, frames, ['arp-grid', 'icmp-grid', 'request-mac-source-sweep']))
    return cases


_ck = [1000]


def app_op(rng, w, payload, tcp=None, v6=None, sport=None, dport=None, cookie=None, meta=None):
    """one `proto::repl` call (on a fresh flow unless `cookie` is given); the contacted address varies
    between the two handled addresses of the family"""
    tcp = rng.chance(1, 2) if tcp is None else tcp
    v6 = rng.chance(1, 2) if v6 is None else v6
    s, d = w.addrs(v6)
    if rng.chance(1, 3):
        d = w.my6b if v6 else w.my4b
    if cookie is None:
        _ck[0] += 1
        cookie = _ck[0]
    op = ('A', 'tcp' if tcp else 'udp', s, d, rng.u16() if sport is None else sport, rng.u16() if dport is None else dport,
          cookie if tcp else None, payload)
    return op + (meta,) if meta else op


def acase(w, ops, tags=()):
    return {'ops': [('C', w.cfg()), ('X',)] + ops, 'tags': list(tags)}


def gen_appcases(kinds, tcp=None, v6=None, per=400, mutate_ratio=6):
    def g(rng, tier):
        cases = []
        n = 20 if tier == 'quick' else 500
        for wi in range(n):
            w = World(rng, selfmode=False, denymode=False, level=['off', 'warn', 'trace', 'off', 'debug'][wi % 5])
            ops = []
            tags = {}
            for _ in range(per):
                t = rng.chance(1, 2) if tcp is None else tcp
                kind, fault, pl = gen.gen_app(rng, tcp=t, kinds=kinds)
                if rng.chance(1, mutate_ratio):
                    pl = gen.mutate(rng, pl)
                    fault = 'mutated'
                tags['%s:%s' % (kind, fault)] = tags.get('%s:%s' % (kind, fault), 0) + 1
                shape = rng.below(10)
                if shape == 0 and kind in ('stun', 'ssh', 'smb1', 'smb2', 'ghost', 'http', 'rpc') and tcp is not False:
                    # sticky flow: a valid first request identifies the flow, later segments go straight to that responder
                    first = {'stun': lambda: gen.gen_stun(rng, None, magic=True) if False else gen.gen_stun_long(rng),
                             'ssh': lambda: gen.gen_ssh(rng), 'smb1': lambda: gen.gen_smb1(rng), 'smb2': lambda: gen.gen_smb2(rng),
                             'ghost': lambda: gen.gen_ghost(rng), 'http': lambda: gen.gen_http(rng),
                             'rpc': lambda: gen.gen_rpc(rng, True)}[kind]()
                    _ck[0] += 1
                    ck = _ck[0]
                    v = rng.chance(1, 2)
                    sp, dp = rng.u16(), rng.u16()
                    ops.append(app_op(rng, w, first, tcp=True, v6=v, sport=sp, dport=dp, cookie=ck))
                    ops.append(('P', ck))
                    for _ in range(1 + rng.below(2)):
                        _, _, pl2 = gen.gen_app(rng, tcp=True, kinds=[kind])
                        if rng.chance(1, 4):
                            pl2 = gen.mutate(rng, pl2)
                        ops.append(app_op(rng, w, pl2, tcp=True, v6=v, sport=sp, dport=dp, cookie=ck, meta={'mode': 'sticky'}))
                elif shape == 1 and kind == 'http' and fault is None and tcp is not False and len(pl) > 12:
                    # a complete request cut after the signature: judged on the cumulative stream
                    sig = pl.index(b' /') + 2 if b' /' in pl else len(pl)
                    cuts = sorted(set(sig + rng.below(max(1, len(pl) - sig)) for _ in range(1 + rng.below(2))))
                    _ck[0] += 1
                    ck = _ck[0]
                    v = rng.chance(1, 2)
                    sp, dp = rng.u16(), rng.u16()
                    pos = 0
                    for cpos in cuts + [len(pl)]:
                        if cpos > pos:
                            ops.append(app_op(rng, w, pl[pos:cpos], tcp=True, v6=v, sport=sp, dport=dp, cookie=ck, meta={'mode': 'stream'}))
                        pos = cpos
                elif shape == 3 and kind == 'http' and tcp is not False:
                    # bytes in front of a complete request on the same flow (the stream then starts with an unknown method):
                    # judged on the cumulative stream (cuts inside the request itself are C11's subject, K3)
                    _ck[0] += 1
                    ck = _ck[0]
                    v = rng.chance(1, 2)
                    sp, dp = rng.u16(), rng.u16()
                    parts = [rng.choice([b'X', b'x', b'\r\n', b'G', b'GE', b'PO', rng.bytes(1 + rng.below(3))]), pl]
                    for part in parts:
                        if part:
                            ops.append(app_op(rng, w, part, tcp=True, v6=v, sport=sp, dport=dp, cookie=ck, meta={'mode': 'stream'}))
                elif shape == 2:
                    # through the real layers 2-4: UDP frame or first TCP data segment, boundary ports included
                    v = rng.chance(1, 2)
                    sp = rng.choice([0, 0, 65535, 1, rng.u16()])
                    dp = rng.choice([0, 65535, rng.u16(), rng.u16(), 53, 5353, 80, 22, 111, 445, 3478, 137])
                    if t:
                        # a fresh 4-tuple for every TCP frame (the protocol id is sticky per flow)
                        _ck[0] += 1
                        dp = _ck[0] % 65536
                        ops.append(('F', w.data_frame(v, sp, dp, rng.u32(), pl, win=rng.choice(gen.WINDOWS))))
                    else:
                        ops.append(('F', w.udp_frame(v, sp, dp, pl)))
                else:
                    ops.append(app_op(rng, w, pl, tcp=t, v6=v6))
            c = acase(w, ops, ['app'])
            c['dist'] = tags
            cases.append(c)
        return cases
    return g


def gen_c10(rng, tier):
    """matcher-level (S ops) and application-level (A ops) identification cases"""
    cases = gen_appcases(None, per=300)(rng, tier)
    w = World(rng, selfmode=False, denymode=False)
    sig_seeds = [b'GET /', b'PUT /', b'POST /', b'HEAD /', b'DELETE /', b'CONNECT /', b'OPTIONS /', b'TRACE /', b'PATCH /',
                 b'SSH-2.0', b'SSH-1.99', b'Gh0st', b'\x00\x01\x01\x04\x21\x12\xa4\x42', b'\x00\x01\x00\x00' + bytes(16),
                 b'\x00\x01\x00\x08' + bytes(16) + b'\x00\x03\x00\x04\x00\x00\x00\x02',
                 b'\x80\x00\x00\x28\x11\x22\x33\x44' + bytes(7) + b'\x02\x00\x01\x86\xa0' + bytes(4) + b'\x00\x00\x00\x03',
                 b'\x11\x22\x33\x44' + bytes(7) + b'\x02\x00\x01\x86\xa0' + bytes(4) + b'\x00\x00\x00\x03',
                 b'\x00\x00\x00\x2f\xffSMB', b'\x00\x00\x01\x00\xfeSMB']
    ops = []
    aops = []
    n = 3000 if tier == 'quick' else 60000
    for _ in range(n):
        s = rng.choice(sig_seeds)
        k = rng.below(8)
        if k == 0:
            s = s[:rng.below(len(s) + 1)]
        elif k == 1:
            s = s + rng.bytes(rng.below(12))
        elif k == 2:
            b = bytearray(s + rng.bytes(rng.below(4)))
            if b:
                b[rng.below(len(b))] = rng.choice([0, 0x43, 0x44, 0x47, 0x48, 0x4f, 0x50, 0x53, 0x54, 0x2a, 0xff, rng.below(256)])
            s = bytes(b)
        elif k == 3:
            s = gen.mutate(rng, s)
        elif k == 4:
            s = rng.bytes(rng.below(32))
        elif k == 5:
            # wildcard positions filled with bytes that are literals elsewhere
            b = bytearray(s)
            for i in range(len(b)):
                if rng.chance(1, 6):
                    b[i] = rng.choice(list(b'GPHDCOTSh0\x00\x01\xff\xfe'))
            s = bytes(b) + rng.bytes(rng.below(6))
        ops.append(('S', 'proto', 0, rng.below(2), s))
        if rng.chance(1, 3):
            # the same string through proto::repl (datagram, or first segment of a fresh flow)
            aops.append(app_op(rng, w, s, tcp=rng.chance(1, 2)))
        elif rng.chance(1, 4):
            # ... and through the real UDP layer, to well-known and boundary destination ports
            v = rng.chance(1, 2)
            aops.append(('F', w.udp_frame(v, rng.u16(), rng.choice([53, 53, 5353, 3478, 111, 80, 22, 445, 0, 65535, rng.u16()]), s)))
    c = acase(w, ops, ['matcher'])
    cases.append(c)
    # every complete request in the framing of BOTH transports over BOTH transports (record-marked call in a datagram, xid-first
    # call on a connection, NetBIOS-less SMB, ...): which responder answers is decided by the bytes, not by the transport
    xops = []
    for _ in range(6 if tier == 'quick' else 60):
        for t_gen in (False, True):
            for kind in ('rpc', 'rpc', 'stun', 'smb1', 'smb2', 'http', 'ssh', 'ghost', 'dns'):
                pl = gen.gen_rpc(rng, t_gen) if kind == 'rpc' else gen.gen_stun_long(rng) if kind == 'stun' else gen.gen_app(rng, tcp=t_gen, kinds=[kind])[2]
                for t_send in (False, True):
                    xops.append(app_op(rng, w, pl, tcp=t_send))
    cases.append(acase(w, xops, ['framing-x-transport']))
    cases.append(acase(w, aops, ['matcher-strings-through-repl']))
    # segmented TCP flows: junk / partial signature first, then (the rest of) a request, same flow
    ops = []
    for _ in range(400 if tier == 'quick' else 8000):
        _, _, req = gen.gen_app(rng, tcp=True, kinds=['http', 'ssh', 'ghost', 'rpc', 'smb1', 'smb2', 'http', 'ssh'])
        k = rng.below(6)
        if k == 0:
            parts = [rng.choice([b'HELP\r\n', b'\r\n', b'x', rng.bytes(1 + rng.below(6)), b'QUIT\r\n', b'GE', b'\x00']), req]
        elif k == 1 and len(req) > 2:
            cut = 1 + rng.below(min(len(req) - 1, 12))
            parts = [req[:cut], req[cut:]]
        elif k == 2 and len(req) > 3:
            a = 1 + rng.below(len(req) - 2)
            b2 = a + 1 + rng.below(len(req) - a - 1)
            parts = [req[:a], req[a:b2], req[b2:]]
        elif k == 3:
            parts = [req, rng.choice([b'GET / HTTP/1.1\r\n\r\n', b'SSH-2.0-x\r\n', rng.bytes(5)])]
        elif k == 4:
            parts = [rng.bytes(1 + rng.below(3)), rng.bytes(1 + rng.below(3)), req]
        else:
            parts = [req]
        _ck[0] += 1
        ck = _ck[0]
        s4, d4 = w.addrs(False)
        sp, dp = rng.u16(), rng.u16()
        for part in parts:
            if part:
                ops.append(('A', 'tcp', s4, d4, sp, dp, ck, part))
    cases.append(acase(w, ops, ['tcp-segmented-identification']))
    # systematically: a valid request of every signature-dispatched protocol cut after each of its first 12 bytes, and with its
    # first 8 bytes sent one byte per segment (single-byte segments 00 / 01 / ff / letters inside the signature)
    ops = []
    s4, d4 = w.addrs(False)
    for kind in ('stun', 'rpc', 'smb1', 'smb2', 'ghost', 'ssh', 'http'):
        for rep in range(1 if tier == 'quick' else 8):
            req = gen.gen_stun_long(rng) if kind == 'stun' else gen.gen_app(rng, tcp=True, kinds=[kind])[2]
            while kind != 'stun' and len(req) < 14:
                req = gen.gen_app(rng, tcp=True, kinds=[kind])[2]
            plans = [[req[:c], req[c:]] for c in range(1, 13)] + [[req[i:i + 1] for i in range(8)] + [req[8:]]]
            for parts in plans:
                _ck[0] += 1
                sp, dp = rng.u16(), rng.u16()
                for part in parts:
                    if part:
                        ops.append(('A', 'tcp', s4, d4, sp, dp, _ck[0], part))
    cases.append(acase(w, ops, ['tcp-signature-cut-sweep']))
    # ... and through the real TCP layer (a segment the TCP layer swallows never reaches the matcher): the protocol id recorded
    # for the flow (P op) must be the one recorded for the unsegmented request, however the leading bytes were cut
    fops, groups = [('C', w.cfg()), ('X',)], []
    s4, d4 = w.addrs(False)
    for kind in ('stun', 'rpc', 'smb1', 'smb2', 'ghost', 'ssh', 'http'):
        req = gen.gen_stun_long(rng) if kind == 'stun' else gen.gen_rpc(rng, True) if kind == 'rpc' else gen.gen_app(rng, tcp=True, kinds=[kind])[2]
        while kind not in ('stun', 'rpc') and len(req) < 14:
            req = gen.gen_app(rng, tcp=True, kinds=[kind])[2]
        plans = [[req]] + [[req[:c], req[c:]] for c in range(1, 10)] + [[req[i:i + 1] for i in range(8)] + [req[8:]]] + [[req[i:i + 1] for i in range(min(40, len(req) - 1))] + [req[min(40, len(req) - 1):]]]
        pidx = []
        for parts in plans:
            _ck[0] += 1
            sp, dp, seq = 1024 + _ck[0] % 60000, rng.u16(), rng.u32()       # a fresh 4-tuple per plan
            for part in parts:
                if part:
                    fops.append(('F', w.data_frame(False, sp, dp, seq, part)))
                    seq = (seq + len(part)) & 0xffffffff
            fops.append(('P', w.cookie(s4, d4, sp, dp)))
            pidx.append(len(fops) - 1)
        groups.append((kind, pidx, [[len(x) for x in pl] for pl in plans]))
    fc = {'ops': fops, 'tags': ['tcp-signature-cut-sweep-frames', 'frames-cumulative'], 'idgroups': groups}
    cases.append(fc)
    return cases


def udp_frame_ffff(w, v6, dport, pl):
    """the datagram from the source port for which the UDP checksum computes to zero (transmitted as 0xFFFF, RFC 768); None if no
    port of the 65 536 does"""
    s_, d_ = w.addrs(v6)
    base = pseudo(s_, d_, 17, 8 + len(pl))
    for sp in range(1024, 65536):
        h = struct.pack('>HHHH', sp, dport, 8 + len(pl), 0)
        if csum16(base + h + pl) == 0:
            return w.udp_frame(v6, sp, dport, pl)
    return None


def gen_c14(rng, tier):
    """application cases + a sweep through the real UDP layer: question type x class (incl. the mDNS unicast-response
    bit 0x8000, ANY, CHAOS) x well-known DNS-family destination ports x one or two questions"""
    cases = gen_appcases(['dns', 'dns', 'dns', 'raw'], tcp=False)(rng, tier)
    w = World(rng, selfmode=False, denymode=False)
    ops = []
    name = b'\x03www\x07example\x03com\x00'
    for dport in (53, 5353, 5355, 137, 853, 0, 65535, rng.u16()):
        for qt in (1, 28, 255, 0x8001, 0):
            for qc in (1, 0x8001, 255, 3, 0, 0x8000):
                for extra in (False, True):
                    qs = name + struct.pack('>HH', qt, qc)
                    if extra:
                        qs = name + struct.pack('>HH', 1, 1) + qs
                    q = struct.pack('>HHHHHH', rng.u16(), 0x0100, 2 if extra else 1, 0, 0, 0) + qs
                    ops.append(('F', w.udp_frame(False, rng.u16() | 1024, dport, q)))
    cases.append(acase(w, ops, ['dns-type-class-port-sweep']))
    # many questions: answers around the usual size limits (512, 1232, 1280, 1452, 1472, 1500 bytes) and beyond
    ops = []
    for nm in (b'\x07example\x03com\x00', b'\x01a\x00'):
        per = 2 * len(nm) + 4 + 14
        for lim in (512, 1232, 1280, 1452, 1472, 1500, 2048, 4000):
            for d in (-1, 0, 1):
                nq = max(1, min((lim - 12) // per + d, 3400 // (len(nm) + 4)))
                q = struct.pack('>HHHHHH', rng.u16(), 0x0100, nq, 0, 0, 0) + (nm + struct.pack('>HH', 1, 1)) * nq
                ops.append(('F', w.udp_frame(False, rng.u16() | 1024, 53, q)))
                ops.append(app_op(rng, w, q, tcp=False, v6=False))
    cases.append(acase(w, ops, ['dns-many-questions']))
    # valid queries whose UDP checksum is transmitted as 0xFFFF (computed zero), and the neighbouring ids
    ops = []
    for _ in range(6 if tier == 'quick' else 60):
        q = gen.gen_dns(rng)
        f = udp_frame_ffff(w, False, rng.choice([53, 5353, rng.u16()]), q)
        if f:
            ops.append(('F', f))
    cases.append(acase(w, ops, ['udp-checksum-ffff']))
    return cases + sweep_as_app_case(rng)


def post_c10(cases):
    """segmentation sweep through the real TCP layer: the protocol id of a flow does not depend on how its leading bytes were cut"""
    out = []
    for c in cases:
        for kind, pidx, plans in c.get('idgroups', []):
            if any(i >= len(c['impl']) for i in pidx):
                continue
            ids = [(c['impl'][i]['r'] or '-').split()[1:2] for i in pidx]
            for k in range(1, len(ids)):
                if ids[k] != ids[0]:
                    lo = pidx[k - 1] + 1
                    out.append({'clause': 'protocol id of a %s flow depends on the segmentation of its leading bytes: unsegmented %s, segment sizes %s give %s'
                                          % (kind, ids[0], plans[k], ids[k]),
                                'ops': [op_to_json(x) for x in c['ops'][:2] + c['ops'][lo:pidx[k] + 1]], 'tags': c['tags'] + [kind]})
                    break
    return out


def sweep_as_app_case(rng):
    """the request x MAC x source sweep and the header-field sweep as application observations (UDP datagrams and first TCP data
    segments are judged by the protocol's own judge: a valid request is answered whatever its source, MAC class or header fields)"""
    out = []
    for selfmode in (True, False):
        w = World(rng, selfmode=selfmode, denymode=False)
        if w.self is not None:
            w.self = [w.my4, w.my6, w.my4b, w.my6b]      # the application judges take every frame of the sweep as deliverable
        # (frames on the derived multicast MACs are only for us when a self-IP list is configured: kept out of this use)
        c = acase(w, [('F', f) for f in l24_request_sweep(rng, w) if f[:6] in (w.mac, BCAST)], ['request-mac-source-sweep', 'header-field-sweep'])
        out.append(c)
    return out


def gen_c15(rng, tier):
    """application cases + every STUN message type (class x method bits) as a later message of a TCP connection already
    identified as STUN (the only way a type other than 00 01 reaches the responder), and as a datagram"""
    cases = gen_appcases(['stun', 'stun', 'stun', 'raw'])(rng, tier)
    w = World(rng, selfmode=False, denymode=False)
    ops = []
    b0s = (0, 1, 2, 3, 0x3e, 0x3f, 0x40, 0x80) if tier == 'quick' else range(256)
    for b0 in b0s:
        _ck[0] += 1
        ck = _ck[0]
        v, sp, dp = rng.chance(1, 2), rng.u16(), rng.u16()
        ops.append(app_op(rng, w, gen.gen_stun_long(rng), tcp=True, v6=v, sport=sp, dport=dp, cookie=ck))
        ops.append(('P', ck))
        for b1 in range(256):
            attrs = rng.choice([b'', b'', gen.stun_attr(3, struct.pack('>I', 2))])
            msg = bytes([b0, b1]) + struct.pack('>H', len(attrs)) + rng.choice([b'\x21\x12\xa4\x42', rng.bytes(4)]) + rng.bytes(12) + attrs
            ops.append(app_op(rng, w, msg, tcp=True, v6=v, sport=sp, dport=dp, cookie=ck, meta={'mode': 'sticky'}))
            if b0 < 2 and b1 < 4:
                ops.append(app_op(rng, w, msg, tcp=False))
    cases.append(acase(w, ops, ['stun-message-type-sweep']))
    # every attribute type a responder might know (RFC 3489 / 5389 / 5780 / 8489 ranges), with values shaped like ports, addresses
    # and flags, in a cookie-bearing request long enough to be identified (K2) -- over UDP, as a first TCP segment, through real frames
    ops = []
    types = list(range(0, 0x33)) + list(range(0x8000, 0x8030)) + [0x8050, 0xc001, 0xc057, 0xffff]
    for ty in (types if tier == 'thorough' else types[::1]):
        val = rng.choice([b'\x12\x34', b'\x12\x34\x00\x00', b'\x00\x01\x12\x34\x0a\x00\x00\x09', struct.pack('>I', rng.choice([2, 4, 6])), b'', rng.bytes(8)])
        attrs = gen.stun_attr(ty, val) + gen.stun_attr(0x0026, bytes(252))
        msg = b'\x00\x01' + struct.pack('>H', len(attrs)) + b'\x21\x12\xa4\x42' + rng.bytes(12) + attrs
        ops.append(app_op(rng, w, msg, tcp=False))
        if ty % 4 == 0:
            ops.append(app_op(rng, w, msg, tcp=True))
            ops.append(('F', w.udp_frame(rng.chance(1, 2), rng.u16() | 1024, 3478, msg)))
    cases.append(acase(w, ops, ['stun-attribute-type-sweep']))
    ops = []
    for _ in range(6 if tier == 'quick' else 60):
        for v6 in (False, True):
            f = udp_frame_ffff(w, v6, rng.choice([3478, rng.u16()]), gen.gen_stun(rng, None, magic=False) if rng.chance(1, 2) else gen.gen_stun_long(rng))
            if f:
                ops.append(('F', f))
    cases.append(acase(w, ops, ['udp-checksum-ffff']))
    return cases + sweep_as_app_case(rng)


def gen_dialogues(kinds, n_quick=30):
    """a client that behaves: SYN, the ACK of the handshake, then several complete requests of one protocol, one per segment,
    each acknowledging what the responder has sent so far (see realistic_acks); advertised windows and ports vary"""
    def g(rng, tier):
        cases = []
        for i in range(n_quick if tier == 'quick' else 20 * n_quick):
            w = World(rng, selfmode=False, denymode=False)
            kind = kinds[i % len(kinds)]
            v6 = rng.chance(1, 2)
            sport, dport, seq = 1024 + rng.below(60000), rng.choice(gen.PORTS + [rng.u16()] * 4), rng.u32()
            s_, d_ = w.addrs(v6)
            ck = w.cookie(s_, d_, sport, dport)
            frames = [w.tcp_frame(v6, sport, dport, (seq - 1) & 0xffffffff, 0, 0x02), w.tcp_frame(v6, sport, dport, seq, (ck + 1) & 0xffffffff, 0x10)]
            for _ in range(2 + rng.below(3)):
                pl = gen.gen_stun_long(rng) if kind == 'stun' else gen.gen_app(rng, tcp=True, kinds=[kind])[2]
                if kind == 'http':
                    pl = gen.gen_http(rng)
                    while pl[-1:] != b'\n':      # no trailing bytes behind the request: they would start the next one
                        pl = gen.gen_http(rng)
                frames.append(w.data_frame(v6, sport, dport, seq, pl, win=rng.choice(gen.WINDOWS[:5])))
                seq = (seq + len(pl)) & 0xffffffff
            cases.append(case(w, frames, ['dialogue', 'kind:' + kind]))
        return realistic_acks(cases, stop_at_unanswered=True)
    return g


def gen_c18(rng, tier):
    """application cases + dialogues + every byte value at each position class of an SSH identification string (inside the
    protocol version, right behind it, inside the software version, inside the comment, in front of the line end)"""
    cases = gen_appcases(['ssh', 'ssh', 'ghost', 'raw'])(rng, tier) + gen_dialogues(['ssh', 'ghost'], 16)(rng, tier)
    w = World(rng, selfmode=False, denymode=False)
    ops = []
    for pre in (b'SSH-2.0', b'SSH-1.99'):
        for b in range(256):
            x = bytes([b])
            for ident in (pre + x + b'-x\r\n', pre + x + b'1-foo bar\r\n', pre + b'-a' + x + b'b\r\n', pre + b'-a ' + x + b'c\r\n', pre + b'-ab' + x + b'\n',
                          pre[:4] + x + pre[4:] + b'-x\r\n'):
                ops.append(app_op(rng, w, ident, tcp=(b % 2 == 0)))
    cases.append(acase(w, ops, ['ssh-byte-sweep']))
    # Gh0st requests whose compressed body starts with a zlib header of every compression level / window size (and with none)
    ops = []
    for zh in (b'\x78\x01', b'\x78\x5e', b'\x78\x9c', b'\x78\xda', b'\x78\x20', b'\x68\x05', b'\x58\x09', b'\x08\x1d', b'\x18\x19', b'\x00\x00', b'\xff\xff'):
        for tail in (b'\x01\x01\x00\xfe\xff\x00\x00\x01\x00\x01', b'', rng.bytes(12)):
            body = zh + tail
            ops.append(app_op(rng, w, b'Gh0st' + struct.pack('<II', 13 + len(body), 1) + body, tcp=rng.chance(1, 2)))
    cases.append(acase(w, ops, ['ghost-zlib-headers']))
    return cases


def gen_c17(rng, tier):
    """application cases + dialogues + every SMB2 dialect as the only offer / offered twice / between unknown ones, and every
    pair of dialects in both orders"""
    cases = gen_appcases(['smb1', 'smb2', 'raw'])(rng, tier) + gen_dialogues(['smb1', 'smb2'], 16)(rng, tier)
    w = World(rng, selfmode=False, denymode=False)
    lists = []
    for d0 in gen.SMB2_DIALECTS + [0x0100, 0x0312]:
        lists += [[d0], [d0, d0], [0x1234, d0, 0xffff]]
        for d1 in gen.SMB2_DIALECTS:
            lists.append([d0, d1])
    ops = []
    for ds in lists:
        h = gen.smb2_header(rng, 0, 0)
        p = h + struct.pack('<HHHHI', 36, len(ds), 1, 0, 0x7f) + rng.bytes(16) + rng.bytes(8) + b''.join(struct.pack('<H', d) for d in ds)
        ops.append(app_op(rng, w, gen.nbt(p), tcp=rng.chance(1, 2)))
    cases.append(acase(w, ops, ['smb2-dialect-lists']))
    # SMB2 commands other than 0 / 1, incl. every value whose low byte is 0 or 1, in front of negotiate- and session-setup-shaped bodies
    ops = []
    for cmd in [2, 3, 5, 0x10, 0xff, 0x0100, 0x0101, 0x0200, 0x0201, 0x8000, 0x8001, 0xff00, 0xff01, 0xffff]:
        for kind in (0, 1):
            h = gen.smb2_header(rng, cmd, 0)
            if kind == 0:
                body = struct.pack('<HHHHI', 36, 2, 1, 0, 0x7f) + rng.bytes(16) + rng.bytes(8) + struct.pack('<HH', 0x0202, 0x0311)
            else:
                body = struct.pack('<HBBIIHHQ', 25, 0, 1, 0, 0, 0x58, 4, 0) + rng.bytes(4)
            ops.append(app_op(rng, w, gen.nbt(h + body), tcp=rng.chance(1, 2)))
    cases.append(acase(w, ops, ['smb2-other-commands']))
    return cases


# ----------------------------------------------------------------------------- property table

PROPS = {
    'C01': dict(gen=gen_c01, judge=None, proj=lambda r: None, release=True,
                rule='hostile frames (valid exchanges of every protocol, mutated: truncation, lying lengths, hostile TLVs, non-UTF-8 text, segmented flows) '
                     'over all 2x2x3x6 configurations with real loggers attached and log arguments evaluated; non-trivial = distinct (frame, logger, level) '
                     'with an authorised destination MAC, i.e. processed beyond the Ethernet filter; judge: no PANIC',
                trusted=['panics are observed through catch_unwind in the hook driver; aborts that are not panics (allocation failure, stack overflow) are outside the model']),
    'C10': dict(gen=gen_c10, judge='C10', judge_mode='stream', proj=proj_app, post=post_c10,
                rule='matcher level: signature seeds truncated / extended / wildcard positions filled with bytes that are literals of other '
                     'signatures / mutated, one real search_next(+end) call each; application level: payload grammars of every protocol over UDP and '
                     'TCP, IPv4 and IPv6, random ports; non-trivial = payload whose reference identification is some signature (or, for replies, a '
                     'signature-dispatched responder answered)'),
    'C13': dict(gen=lambda rng, tier: gen_appcases(['http', 'http', 'http', 'raw'])(rng, tier) + gen_dialogues(['http'])(rng, tier) + sweep_as_app_case(rng), judge='C13', judge_mode='app', proj=proj_headers,
                rule='HTTP request grammar (9 verbs, targets incl. non-UTF-8/CR/NUL, versions, 0..n headers, CRLF/LF) + single faults (unknown verb, '
                     'missing SP, bad version, header without colon, unterminated, lower case, two spaces) + raw mutations, over UDP and TCP, any port; '
                     'non-trivial = request of the strict grammar, or one outside the relaxed language that starts like HTTP'),
    'C14': dict(gen=lambda rng, tier: gen_c14(rng, tier), judge='C14', judge_mode='app', proj=proj_headers,
                rule='DNS messages (ids, flag words, 0..k questions, label layouts, type/class grids, QR=1, extra sections, truncation) over UDP; '
                     'non-trivial = IN/A query over IPv4 (answer checked by the independent parser) or non-IN/A / truncated message (silence checked)'),
    'C15': dict(gen=gen_c15, judge='C15', judge_mode='app', proj=proj_headers,
                rule='STUN messages with/without magic cookie, attribute lists well-formed (padded) and with lying TLV lengths, change-request flags, '
                     'all class/method codes; non-trivial = binding request identified by the published signatures, or a message of another class/method'),
    'C16': dict(gen=lambda rng, tier: gen_appcases(['rpc', 'rpc', 'rpc', 'raw'])(rng, tier) + gen_dialogues(['rpc'], 16)(rng, tier), judge='C16', judge_mode='app', proj=proj_headers,
                rule='ONC-RPC calls (xid, program 99840..100095, versions, procedures 0..255, credential/verifier lengths) over UDP and record-marked TCP, '
                     'IPv4 and IPv6; non-trivial = call identified by the published signatures'),
    'C17': dict(gen=gen_c17, judge='C17', judge_mode='app', proj=proj_headers,
                rule='SMB1/SMB2 negotiate and session-setup requests (ids, flags, dialect lists with order/duplicates/unknown, blob lengths, commands, '
                     'reply flag, truncation); non-trivial = well-formed request (response checked) or response-flag/other-command message (silence checked)'),
    'C18': dict(gen=gen_c18, judge='C18', judge_mode='app', proj=proj_headers,
                rule='SSH identification strings (versions, software/comment with arbitrary bytes incl. lone CR, terminators) and Gh0st magic + tails; '
                     'non-trivial = payload starting with SSH- or the Gh0st magic'),
    'C20': dict(gen=gen_c20, judge='C20', judge_mode='log', proj=lambda r: None,
                rule='structured and hostile frames with the real ConsoleLogger / LogfmtLogger attached; the stdout of the logger is parsed line by line; '
                     'non-trivial = frame that produced at least one event'),
    'C02': dict(gen=gen_c02, judge='C02', proj=proj_headers,
                rule='frames from the structured frame builder over configurations {self list on/off}x{deny list on/off}; '
                     'non-trivial = frame that C02 requires to be silent, or a reply under a configured self-IP list'),
    'C03': dict(gen=lambda rng, tier: gen_c03(rng, tier), judge='C03', proj=proj_headers,
                rule='frames from the structured frame builder; non-trivial = frame that elicited a reply (mirror relation evaluated)'),
    'C04': dict(gen=gen_c04, judge='C04', release=True, proj=proj_headers,
                rule='frames from the structured frame builder, payload sizes 0..4 KiB incl. odd; non-trivial = a reply was emitted and re-parsed / re-checksummed'),
    'C05': dict(gen=gen_c05, judge='C05', proj=proj_headers,
                rule='ARP operations x field variants x handled/unhandled targets; ICMPv4/ICMPv6 type x code grids with payload lengths 0..1472; '
                     'Neighbour Solicitations (handled/unhandled target, options, truncated); non-trivial = frame for which C05 prescribes an answer or silence'),
    'C06': dict(gen=gen_c06, judge='C06', proj=proj_headers, release=True,
                rule='all 512 flag words x boundary sequence numbers x IPv4/IPv6 x with/without payload after a non-empty history; non-trivial = delivered segment with SYN set'),
    'C07': dict(gen=lambda rng, tier: gen_flows(rng, tier) + gen_sticky(rng, tier) + sweep_cases(rng) + realistic_acks(gen_sticky(rng, tier, n=(40 if tier == 'quick' else 800))), judge='C07', proj=proj_headers, release=True,
                rule='scripted interleavings of 1-4 flows (right/wrong/zero ack, wrap-around, FIN, RST, ACK, noise); non-trivial = segment delivered to TCP and compared with the reference connection model'),
    'C09': dict(gen=gen_c09, judge='C09', proj=lambda r: None, table=True,
                rule='hostile histories (SYN floods, wrong-ack data, FIN/RST/ACK, UDP/ICMP/ARP noise) with a table-size probe after every frame; non-trivial = frame delivered to TCP'),
}


def classify_known(prop, v, known):
    for k in known:
        m = k.get('match', {})
        if m.get('clause_contains') and m['clause_contains'] not in v.get('clause', ''):
            continue
        if m.get('requires_tag') and m['requires_tag'] not in v.get('tags', []):
            continue
        if m.get('requires_flag') and not v.get(m['requires_flag']):
            continue
        return k
    return None

# ----------------------------------------------------------------------------- engine


def load_corpus(prop):
    cases = []
    for path in sorted(glob.glob(os.path.join(CORPUS, prop + '-*.json')) + glob.glob(os.path.join(CORPUS, 'all-*.json'))):
        c = json.load(open(path))
        cases.append(case_from_json(c, os.path.basename(path)))
    return cases


def op_to_json(op):
    if op[0] == 'C':
        c = op[1]
        return ['C', {'mac': c['mac'].hex(), 'self': None if c['self'] is None else [x.hex() for x in c['self']],
                      'deny': None if c['deny'] is None else [x.hex() for x in c['deny']],
                      'key': ['%x' % c['key'][0], '%x' % c['key'][1]], 'logger': c['logger'], 'level': c['level']}]
    return [x.hex() if isinstance(x, (bytes, bytearray)) else x for x in op]


def op_from_json(j):
    if j[0] == 'C':
        c = j[1]
        return ('C', dict(mac=bytes.fromhex(c['mac']), self=None if c['self'] is None else [bytes.fromhex(x) for x in c['self']],
                          deny=None if c['deny'] is None else [bytes.fromhex(x) for x in c['deny']],
                          key=(int(c['key'][0], 16), int(c['key'][1], 16)), logger=c['logger'], level=c['level']))
    if j[0] == 'F':
        return ('F', bytes.fromhex(j[1]))
    if j[0] == 'A':
        op = ('A', j[1], bytes.fromhex(j[2]), bytes.fromhex(j[3]), j[4], j[5], j[6], bytes.fromhex(j[7]))
        return op + (j[8],) if len(j) > 8 and isinstance(j[8], dict) else op
    if j[0] == 'S':
        return ('S', j[1], j[2], j[3], bytes.fromhex(j[4]))
    return tuple(j)


def case_from_json(c, name=''):
    return {'ops': [op_from_json(o) for o in c['ops']], 'tags': c.get('tags', []) + ['corpus:' + name]}


def run_cases(cases, want_model=True, release=False, isolate=False):
    """Run every case on the implementation and on the model. Fills case['impl'], case['model'] (block lists)."""
    ops = [o for c in cases for o in c['ops']]
    if isolate:
        # one fresh implementation process per case: state the `X` op cannot reset (statics outside the connection table)
        # does not leak from one case into the next
        from concurrent.futures import ThreadPoolExecutor
        with ThreadPoolExecutor(max_workers=12) as ex:
            outs = list(ex.map(lambda c: run_impl(c['ops'], release=release), cases))
        dead = False
        for c, (ib1, _, _, _) in zip(cases, outs):
            c['impl'] = ib1
            dead = dead or len(ib1) < len(c['ops'])
    else:
        ib, rc, err, partial = run_impl(ops, release=release)
        dead = len(ib) < len(ops)
        k = 0
        for c in cases:
            n = len(c['ops'])
            c['impl'] = ib[k:k + n]
            k += n
    if not want_model:
        return dead
    mops = []
    for c in cases:
        for o, b in zip(c['ops'], c['impl'] + [None] * (len(c['ops']) - len(c['impl']))):
            if b is not None and o[0] in ('F', 'A') and b['r'] and not b['r'].startswith(('-', 'PANIC', 'bad')):
                hexpart = b['r'].split()[0]
                try:
                    d, s = extract_env(bytes.fromhex(hexpart))
                except ValueError:
                    d, s = None, None
                if d is not None or s is not None:
                    mops.append(('E', d or b'', s or 0))
            mops.append(o)
    mb, rc2, err2, _ = run_model(mops)
    k = 0
    for c in cases:
        n = len(c['ops'])
        c['model'] = mb[k:k + n]
        k += n
    return dead


def impl_events(c, i):
    """canonical events of the implementation's logger output for op i; None if a line does not parse"""
    logger = c['ops'][0][1]['logger']
    out = []
    for l in c['impl'][i]['log']:
        e = parse_log_line(l, logger)
        if e is None:
            return None
        out.append(e)
    return out


KNOWN_PROTO_NUMS = set(PROTO_NAMES.values())


def ev_equal(a, b):
    """implementation event vs model event (transport printed as 'unknown' by pnet is a wildcard)"""
    if a == b:
        return True
    x, y = a.split(), b.split()
    if len(x) != len(y):
        return False
    for k, (u, v) in enumerate(zip(x, y)):
        if u == v:
            continue
        if k == 7 and u == '-' and v.isdigit() and int(v) not in KNOWN_PROTO_NUMS:
            continue
        return False
    return True


def frame_obs_line(frame, reply, payload=None):
    """application-interface observation recovered from a request frame and the reply frame (clean UDP / first TCP data frames only)"""
    q = split_reply(frame)
    if 'ip' not in q or ('udp' not in q and 'tcp' not in q):
        return None
    tcp = 'tcp' in q
    sp, dp = (q['tcp'][0], q['tcp'][1]) if tcp else (q['udp'][0], q['udp'][1])
    if reply.startswith('PANIC'):
        return 'A %s %s %s %d %d - %s PANIC 0' % ('tcp' if tcp else 'udp', ip_model(q['ip'][0]), ip_model(q['ip'][1]), sp, dp, hx(q.get('app') or b''))
    rp, pa = '-', dp
    if reply not in ('-', ''):
        d = split_reply(bytes.fromhex(reply))
        app = d.get('app')
        rp = hx(app) if app else '-'
        pa = d['tcp'][0] if 'tcp' in d else d['udp'][0] if 'udp' in d else dp
    return 'A %s %s %s %d %d - %s %s %d' % ('tcp' if tcp else 'udp', ip_model(q['ip'][0]), ip_model(q['ip'][1]), sp, dp,
                                            hx((q.get('app') or b'') if payload is None else payload), rp, pa)


def judge_lines(c, mode='frame'):
    """judge input for one case: cfg/reset lines and observation lines"""
    lines = []
    idx = []
    streams = {}
    answered = {}
    stream_done = set()
    sticky = {}
    for i, (o, b) in enumerate(zip(c['ops'], c['impl'])):
        if o[0] == 'P':
            parts = (b['r'] or '-').split()
            if len(parts) >= 2 and parts[1].isdigit():
                sticky[o[1]] = int(parts[1]) if int(parts[1]) < 9 else 0
            continue
        if o[0] in ('C', 'X'):
            lines.append(render(o, 'model'))
        elif o[0] == 'F' and mode in ('app', 'stream'):
            over = None
            if mode == 'stream' and 'frames-cumulative' in c['tags'] and flow_key(o[1]) is not None:
                # valid data segments of one connection sent as frames: judged on the byte stream of the flow so far (as for A ops)
                fk = flow_key(o[1])
                if fk in stream_done:
                    continue
                q = split_reply(o[1])
                streams[fk] = streams.get(fk, b'') + (q.get('app') or b'')
                over = streams[fk]
                if outcome(b['r'] or '-') == 'reply' and (split_reply(bytes.fromhex((b['r'] or '-').split()[0])).get('app')):
                    stream_done.add(fk)
            ln = frame_obs_line(o[1], b['r'] or '-', over)
            if ln:
                lines.append(ln)
                idx.append(i)
        elif o[0] == 'F':
            r = b['r'] if b['r'] else '-'
            r = r.replace(' ', '_') if r.startswith('PANIC') else r
            if mode == 'log':
                if r.startswith('PANIC'):
                    continue
                # the real logger's stdout, verbatim: read by the Lean reader Spec.parseConsole / parseLogfmt
                lg = c['ops'][0][1]['logger']
                lines.append('T %s %s %s %s' % (lg, hx(o[1]), r, ';'.join(l.encode('latin-1', 'replace').hex() or '0a' for l in b['log']) or '-'))
            else:
                lines.append('F %s %s %d' % (hx(o[1]), r, b['t'] if b['t'] is not None else 0))
            idx.append(i)
        elif o[0] == 'A':
            parts = (b['r'] or '-').split()
            if parts[0].startswith('PANIC'):
                lines.append('A %s %s %s %d %d %s %s PANIC 0' % (o[1], ip_model(o[2]), ip_model(o[3]), o[4], o[5], '-' if o[6] is None else o[6], hx(o[7])))
            else:
                payload = o[7]
                meta = o[8] if len(o) > 8 and isinstance(o[8], dict) else {}
                forced = ''
                if o[1] == 'tcp':
                    streams[o[6]] = streams.get(o[6], b'') + o[7]
                    # stateful parsers (HTTP, ONC-RPC/TCP): a later message is judged on its own only if the previous one
                    # on the flow was complete, i.e. answered (otherwise it continues the unfinished message)
                    prev_answered, answered[o[6]] = answered.get(o[6], True), parts[0] != '-'
                    if meta.get('mode') == 'sticky' and sticky.get(o[6]) in (1, 5) and not prev_answered:
                        idx.append(i) if False else None
                        continue
                if meta.get('mode') == 'sticky' and sticky.get(o[6]):
                    # later segment of a flow whose sticky protocol id is read from the implementation's table (P op):
                    # the responder of that protocol sees this segment alone
                    forced = ' %d' % sticky[o[6]]
                elif (mode == 'stream' or meta.get('mode') == 'stream') and o[1] == 'tcp':
                    # the identification is judged on the byte stream of the flow so far, however it was segmented;
                    # once the flow's request has been answered the parser starts over: what follows is not judged here
                    if o[6] in stream_done:
                        continue
                    if parts[0] != '-':
                        stream_done.add(o[6])
                    payload = streams[o[6]]
                elif meta.get('mode') == 'sticky':
                    continue
                lines.append('A %s %s %s %d %d %s %s %s %s%s' % (o[1], ip_model(o[2]), ip_model(o[3]), o[4], o[5], '-' if o[6] is None else o[6],
                                                               hx(payload), parts[0], parts[1] if len(parts) > 1 else '0', forced))
            idx.append(i)
        elif o[0] == 'S' and mode in ('frame', 'stream'):
            parts = (b['r'] or 'none 0 0').split()
            if parts[0] != 'PANIC':
                lines.append('M %d %s %s' % (o[3], hx(o[4]), parts[0]))
                idx.append(i)
    return lines, idx


def explore(prop, pd, tier, seed, replay=None):
    rng = Rng(seed * 1000003 + int(prop[1:]))
    if replay:
        cases = [case_from_json(json.load(open(replay)), 'replay')]
    else:
        cases = load_corpus(prop) + pd['gen'](rng, tier)
    if pd.get('custom'):
        return pd['custom'](prop, pd, tier, rng, cases)
    dead = run_cases(cases)
    violations = []
    disagreements = []
    release_evals = 0
    if tier == 'thorough' and pd.get('release') and os.path.exists(IMPL_BIN_REL):
        # same cases on the release build (wrapping arithmetic): panics and judge failures count
        import copy
        rel = [{'ops': c['ops'], 'tags': c['tags'] + ['release-build']} for c in cases]
        run_cases(rel, want_model=False, release=True)
        for c in rel:
            for i, b in enumerate(c['impl']):
                if c['ops'][i][0] in ('F', 'A'):
                    release_evals += 1
                    if b['r'] and b['r'].startswith('PANIC'):
                        violations.append({'clause': 'release build panicked: ' + b['r'], 'ops': [op_to_json(x) for x in c['ops'][:i + 1]], 'tags': c['tags'], 'panic': True})
        if pd.get('judge'):
            for c in rel:
                for fi, fc in judge_case_noexec(pd, c):
                    violations.append({'clause': fc + ' (release build)', 'ops': [op_to_json(x) for x in c['ops'][:fi + 1]], 'tags': c['tags'],
                                       'cookie_collision': 'cookie collision' in fc, 'shadowed': fc.startswith('[shadowed]')})
    nontrivial = set()
    evaluations = 0
    byte_exact = 0
    compared = 0
    text_lines = 0
    text_drift = 0
    text_samples = []
    tagdist = {}
    outdist = {'reply': 0, 'silent': 0, 'panic': 0}
    samples = []
    # judge
    jl = []
    jmap = []
    for ci, c in enumerate(cases):
        l, idx = judge_lines(c, pd.get('judge_mode', 'frame'))
        jl += l
        jmap += [(ci, i) for i in idx]
        for t in c['tags']:
            tagdist[t] = tagdist.get(t, 0) + 1
    verdicts, rc, err = [], 0, ''
    if pd.get('judge'):
        from check import run_judge
        verdicts, rc, err = run_judge(pd['judge'], jl)
    vmap = {}
    for (ci, i), v in zip(jmap, verdicts):
        vmap[(ci, i)] = v
    for ci, c in enumerate(cases):
        for i, o in enumerate(c['ops']):
            if o[0] not in ('F', 'A', 'S'):
                continue
            if i >= len(c['impl']):
                if any(v.get('died') for v in violations):
                    break      # later cases never ran: only the op that did not return is reported
                violations.append({'clause': ('implementation did not return from this op (killed after %d s): processing does not terminate' % lib.HUNG[-1]) if lib.HUNG else 'implementation process died', 'panic': True, 'died': True, 'ops': [op_to_json(x) for x in c['ops'][:i + 1]], 'tags': c['tags']})
                break
            evaluations += 1
            a = c['impl'][i]
            outdist[outcome(a['r'])] = outdist.get(outcome(a['r']), 0) + 1
            if outcome(a['r']) == 'panic':
                violations.append({'clause': 'implementation panicked: ' + a['r'], 'ops': [op_to_json(x) for x in c['ops'][:i + 1]], 'tags': c['tags'], 'panic': True})
                continue
            v = vmap.get((ci, i))
            if o[0] == 'F' and not pd.get('judge') and o[1][:6] in auth_macs(c['ops'][0][1]) and len(o[1]) >= 14:
                nontrivial.add((o[1], c['ops'][0][1]['logger'], c['ops'][0][1]['level']))
                if len(samples) < 3:
                    samples.append({'config': op_to_json(c['ops'][0])[1], 'frame': o[1].hex(), 'outcome': a['r'][:200]})
            if v is not None:
                parts = v.split(' ', 3)
                if parts[1] == 'FAIL':
                    viol = {'clause': parts[3] if len(parts) > 3 else '', 'ops': [op_to_json(x) for x in c['ops'][:i + 1]],
                            'tags': c['tags'], 'reply': a['r'], 'frame_index': i}
                    if 'cookie collision' in viol['clause']:
                        viol['cookie_collision'] = True
                    if viol['clause'].startswith('[shadowed]'):
                        viol['shadowed'] = True
                    violations.append(viol)
                elif parts[1] == 'ok' and parts[2] == '1':
                    nontrivial.add(tuple(x for x in o if not isinstance(x, dict)))
                    if len(samples) < 3:
                        samples.append({'config': op_to_json(c['ops'][0])[1], 'op': op_to_json(o), 'result': a['r'][:400], 'table': a['t']})
            # correspondence
            if i < len(c['model']):
                b = c['model'][i]
                compared += 1
                evs_ok = True
                if pd.get('judge_mode') == 'log' and outcome(a['r']) != 'panic':
                    ie = impl_events(c, i)
                    me = [l for l in b['log'] if l.startswith('EV ')]
                    evs_ok = ie is not None and len(ie) == len(me) and all(ev_equal(x, y) for x, y in zip(ie, me))
                    # text level: the model's logger lines against the real logger's stdout (wall clock stripped)
                    it = [strip_ts(l, c['ops'][0][1]['logger']) for l in a['log']]
                    mt = [bytes.fromhex(l[3:]).decode('latin-1').rstrip('\n') for l in b['log'] if l.startswith('LN ')]
                    text_lines += len(it)
                    if it != mt:
                        text_drift += 1
                        if len(text_samples) < 3:
                            bad = [(x, y) for x, y in zip(it, mt) if x != y][:2] or [(len(it), len(mt))]
                            text_samples.append({'frame': o[1].hex() if o[0] == 'F' else None, 'differs': bad})
                if a['r'] == b['r'] and a['t'] == b['t'] and evs_ok:
                    byte_exact += 1
                elif not evs_ok:
                    disagreements.append({'ops': [op_to_json(x) for x in c['ops'][:i + 1]], 'impl_log': c['impl'][i]['log'][:12],
                                          'model_log': b['log'][:12]})
                else:
                    def _hexof(x):
                        try:
                            return bytes.fromhex(x['r'].split()[0]) if outcome(x['r']) == 'reply' else None
                        except ValueError:
                            return x['r'].encode()
                    ra, rb = _hexof(a), _hexof(b)
                    if o[0] == 'A':
                        ra, rb = proj_a(a['r']), proj_a(b['r'])
                    elif o[0] != 'F':
                        ra, rb = (a['r'],), (b['r'],)
                    pj = pd['proj'] if o[0] == 'F' else (lambda x: x)
                    pa = (outcome(a['r']), pj(ra) if ra is not None else None, a['t'] if pd.get('table') else None)
                    pb = (outcome(b['r']), pj(rb) if rb is not None else None, b['t'] if pd.get('table') else None)
                    if pa != pb:
                        disagreements.append({'ops': [op_to_json(x) for x in c['ops'][:i + 1]], 'impl': a['r'][:600], 'model': b['r'][:600],
                                              'impl_table': a['t'], 'model_table': b['t']})
    if pd.get('post'):
        violations += pd['post'](cases)
    # shrink the first few violations (drop ops that are not needed for the last op to fail)
    for v in violations[:3]:
        if v.get('ops') and len(v['ops']) > 3 and pd.get('judge'):
            v['ops'] = shrink_ops(pd, v['ops'], v.get('clause', ''))
    # focused search around model/implementation disagreements: is there a judged failure nearby?
    if disagreements and not violations and pd.get('judge'):
        found = focused_search(pd, rng, disagreements[:4])
        violations += found
    if pd.get('judge') and len(verdicts) != len(jmap):
        disagreements.append({'what': 'judge produced %d verdicts for %d observations: %s' % (len(verdicts), len(jmap), err[:300])})
    if dead:
        violations.append({'clause': 'implementation driver died before finishing the op list', 'ops': []})
    cov = {
        'evaluations': evaluations,
        'distinct_nontrivial': len(nontrivial),
        'rule': pd.get('rule', ''),
        'samples': samples or [{'note': 'no non-trivial case reached'}],
        'traces_validated_against_impl': compared,
        'byte_exact_agreement': byte_exact,
        'projection_disagreements': len(disagreements),
        'input_distribution': {'tags': tagdist, 'outcomes': outdist, 'cases': len(cases)},
        'release_build_evaluations': release_evals,
    }
    if pd.get('judge_mode') == 'log':
        cov['logger_text'] = {'lines_compared_with_model_text': text_lines, 'frames_with_text_drift': text_drift,
                              'drift_samples': text_samples}
    return {'coverage': cov, 'violations': violations, 'disagreements': disagreements}


def judge_case_noexec(pd, c):
    from check import run_judge
    l, idx = judge_lines(c, pd.get('judge_mode', 'frame'))
    verdicts, rc, err = run_judge(pd['judge'], l)
    fails = []
    for i, v in zip(idx, verdicts):
        parts = v.split(' ', 3)
        if parts[1] == 'FAIL':
            fails.append((i, parts[3] if len(parts) > 3 else ''))
    return fails


def judge_case(pd, c):
    """run one case on the implementation and judge it; returns list of (op index, clause) failures"""
    run_cases([c], want_model=False)
    from check import run_judge
    l, idx = judge_lines(c, pd.get('judge_mode', 'frame'))
    verdicts, rc, err = run_judge(pd['judge'], l)
    fails = []
    for i, v in zip(idx, verdicts):
        parts = v.split(' ', 3)
        if parts[1] == 'FAIL':
            fails.append((i, parts[3] if len(parts) > 3 else ''))
    for i, b in enumerate(c['impl']):
        if b['r'] and b['r'].startswith('PANIC'):
            fails.append((i, 'implementation panicked: ' + b['r']))
    return fails


def shrink_ops(pd, ops_json, clause):
    ops = [op_from_json(o) for o in ops_json]
    head, body = ops[:2], ops[2:]
    if len(body) > 120:
        return ops_json
    i = 0
    while i < len(body) - 1:
        trial = body[:i] + body[i + 1:]
        c = {'ops': head + trial, 'tags': []}
        fails = judge_case(pd, c)
        if any(fi == len(c['ops']) - 1 and fc == clause for fi, fc in fails):
            body = trial
        else:
            i += 1
    return [op_to_json(o) for o in head + body]


def focused_search(pd, rng, disagreements):
    """mutate the disagreeing op (lengths +-1, boundary bytes, truncations) and judge every mutant on the implementation"""
    out = []
    for d in disagreements:
        if 'ops' not in d:
            continue
        ops = [op_from_json(o) for o in d['ops']]
        last = ops[-1]
        if last[0] not in ('F', 'A'):
            continue
        data = last[1] if last[0] == 'F' else last[7]
        muts = [data]
        for _ in range(150):
            muts.append(gen.mutate(rng, data))
        for i in range(min(len(data), 80)):
            for v in (0, 0xff, data[i] ^ 1, (data[i] + 1) & 0xff):
                b = bytearray(data)
                b[i] = v
                muts.append(bytes(b))
        trial_ops = ops[:-1]
        for m in muts:
            trial_ops.append(('F', m) if last[0] == 'F' else last[:7] + (m,))
        c = {'ops': trial_ops, 'tags': ['focused-search']}
        fails = judge_case(pd, c)
        for fi, fc in fails[:1]:
            # replay = prefix + the failing mutant alone
            out.append({'clause': fc, 'ops': [op_to_json(x) for x in ops[:-1] + [trial_ops[fi]]], 'tags': ['focused-search'],
                        'shadowed': fc.startswith('[shadowed]'), 'cookie_collision': 'cookie collision' in fc})
    return out


# ============================================================================= custom explorations (differential oracles)

def _result(evaluations, nontrivial, samples, compared, byte_exact, disagreements, violations, rule, dist):
    return {'coverage': {'evaluations': evaluations, 'distinct_nontrivial': nontrivial, 'rule': rule,
                         'samples': samples or [{'note': 'no non-trivial case reached'}],
                         'traces_validated_against_impl': compared, 'byte_exact_agreement': byte_exact,
                         'projection_disagreements': len(disagreements), 'input_distribution': dist},
            'violations': violations, 'disagreements': disagreements}


def _corr(cases, proj, disagreements):
    """model/implementation correspondence over all F/A ops of the cases; returns (compared, byte_exact)"""
    compared = exact = 0
    for c in cases:
        for i, o in enumerate(c['ops']):
            if o[0] not in ('F', 'A') or i >= len(c['impl']) or i >= len(c.get('model', [])):
                continue
            a, b = c['impl'][i], c['model'][i]
            compared += 1
            if a['r'] == b['r'] and a['t'] == b['t']:
                exact += 1
            else:
                pa, pb = proj(o, a), proj(o, b)
                if pa != pb:
                    disagreements.append({'ops': [op_to_json(x) for x in c['ops'][:i + 1]], 'impl': a['r'][:400], 'model': b['r'][:400]})
    return compared, exact


def seg_kind(block):
    """per-segment observation of a TCP reply frame: (kind, masked app payload)"""
    r = block['r']
    if outcome(r) != 'reply':
        return (outcome(r), None)
    d = split_reply(bytes.fromhex(r))
    if 'tcp' not in d:
        return ('other', None)
    fl = d['tcp'][4]
    app = d.get('app') or b''
    return ('ack' if (fl == 0x10 and not app) else 'data' if fl == 0x18 else 'flags%x' % fl, mask_env(app))


def gen_streams(rng, tier):
    streams = []
    n = 8 if tier == 'quick' else 40
    for _ in range(n):
        streams.append(('http', gen.gen_http(rng, rng.choice([None, None, None, None, 'nocolon', 'version', 'unterminated', 'folded']))))
        streams.append(('rpc', gen.gen_rpc(rng, True, None)))
    streams.append(('http', b'GET / HTTP/1.1\r\n\r\n'))
    streams.append(('http', b'OPTIONS /x HTTP/1.0\nHost: a\n\n'))
    streams.append(('rpc', bytes.fromhex('80000028') + bytes.fromhex('112233440000000000000002000186a0000000020000000300000000000000000000000000000000')))
    streams.append(('http', b'GET /a HTTP/1.1\r\nAccept: text/html,\r\n application/xml\r\nHost: a\r\n\r\n'))
    streams.append(('http', b'GET / HTTP/1.1\r\nA: b\r\n\r\n'))
    # a request that fails to parse followed by a complete one (a parser that re-synchronises on a segment boundary answers
    # some segmentations of a stream that is never answered in one piece), and two complete requests back to back
    streams.append(('http', b'GET / X\r\n\r\nGET / HTTP/1.0\r\n\r\n'))
    streams.append(('http', b'GET / HTTP/1.1\r\nbad\r\n\r\nPUT /a HTTP/1.1\r\n\r\n'))
    streams.append(('http', b'GET /  HTTP/1.1\r\n\r\nGET / HTTP/1.1\r\n\r\n'))
    streams.append(('http', b'HEAD / HTTP/1.1\r\n\r\nGET /b HTTP/1.1\r\n\r\n'))
    bad = bytes.fromhex('80000018') + bytes.fromhex('112233440000000000000003000186a00000000200000003')
    good = bytes.fromhex('80000028') + bytes.fromhex('556677880000000000000002000186a0000000020000000300000000000000000000000000000000')
    streams.append(('rpc', bad + good))
    streams.append(('rpc', good + good[:4] + b'\x99' + good[5:]))
    out = [(k, s[:110]) for k, s in streams if len(s) >= 2]
    out.append(('http', b'GET /' + b'a' * 60 + b' HTTP/1.1\r\nHost: example.com\r\nAccept: */*\r\n\r\n'))
    body = struct.pack('>IIIIII', 0x71223344, 0, 2, 100000, 4, 4) + struct.pack('>II', 1, 80) + bytes(80) + struct.pack('>II', 0, 0)
    out.append(('rpc', struct.pack('>I', 0x80000000 | len(body)) + body))
    return out


def gen_large_streams(rng, tier):
    """HTTP requests with 8-12 KiB of headers and ONC-RPC/TCP calls with large credentials; each is complete
    exactly at its last byte"""
    out = []
    for _ in range(2 if tier == 'quick' else 12):
        target = rng.choice([8300, 9000, 12000, 8193 + rng.below(3000)])
        h = rng.choice([b'GET', b'POST', b'PUT']) + b' / HTTP/1.1\r\n'
        i = 0
        while len(h) < target:
            h += b'X-Hdr-%d: ' % i + bytes(0x61 + rng.below(26) for _ in range(20 + rng.below(300))) + b'\r\n'
            i += 1
        out.append(('http', h + b'\r\n'))
        credlen = 4 * ((target - 60) // 4)
        if credlen > 8 * 1024 - 4 and rng.chance(1, 2):
            credlen = 4 * rng.choice([2047, 2048, 2049, 2100])
        body = struct.pack('>IIIIII', rng.u32() | 0x01000000, 0, 2, 100000, rng.choice([2, 3, 4]), rng.choice([0, 3, 4])) + \
            struct.pack('>II', 1, credlen) + rng.bytes(credlen) + struct.pack('>II', 0, 0)
        out.append(('rpc', struct.pack('>I', 0x80000000 | len(body)) + body))
    return out


def explore_c11(prop, pd, tier, rng, corpus_cases):
    w = World(rng, selfmode=False, denymode=False, key=(0, 0))
    streams = gen_streams(rng, tier)
    cases = []
    sport = [2000]

    nflow = [0]
    isns = [5, 5, 5, 0x7fffffff - 20, 0x80000000 - 3, 0xffffffff - 20, 0xfffffffd, 0x7fffffff - 8000, 0]

    def flow_case(s, cuts, tag, acks=False, pad=False):
        sport[0] = (sport[0] + 1) % 60000 + 2000
        frames = []
        skip = set()
        nflow[0] += 1
        seq = isns[nflow[0] % len(isns)]      # the stream crosses 2^31 or 2^32 for some flows
        pos = 0
        ck = w.cookie(w.cl4, w.my4, sport[0], 80)
        for cpos in list(cuts) + [len(s)]:
            part = s[pos:cpos]
            if part:
                frames.append(w.data_frame(False, sport[0], 80, seq, part))
                seq = (seq + len(part)) & 0xffffffff
                if acks and cpos < len(s):
                    # what a real client sends between its data segments: a bare ACK (window update / duplicate ACK)
                    skip.add(len(frames))
                    frames.append(w.tcp_frame(False, sport[0], 80, seq, (ck + 1) & 0xffffffff, 0x10))
            pos = cpos
        if pad:
            frames = pad60(frames)       # as delivered by a NIC: frames below the Ethernet minimum are zero-padded to 60 bytes
        c = case(w, frames, [tag])
        c['stream'], c['cuts'], c['skip'] = s, tuple(cuts), skip
        return c
    groups = []
    for kind, s in streams:
        g = {'stream': s, 'kind': kind, 'whole': flow_case(s, (), 'whole'), 'prefixes': [], 'segs': []}
        # trigger byte: shortest prefix answered when sent as one segment
        for n in range(1, len(s) + 1):
            g['prefixes'].append(flow_case(s[:n], (), 'prefix'))
        cutsets = [(a,) for a in range(1, len(s))]
        two = [(a, b) for a in range(1, len(s)) for b in range(a + 1, len(s))]
        if tier == 'quick':
            two = [two[rng.below(len(two))] for _ in range(min(len(two), 60))] if two else []
        cutsets += two
        for _ in range(10 if tier == 'quick' else 60):
            k = 3 + rng.below(5)
            cs = sorted(set(1 + rng.below(len(s) - 1) for _ in range(k))) if len(s) > 2 else []
            if cs:
                cutsets.append(tuple(cs))
        for cs in cutsets:
            g['segs'].append(flow_case(s, cs, 'cuts%d' % len(cs)))
        for cs in cutsets[::7][:40]:
            g['segs'].append(flow_case(s, cs, 'cuts%d-acks' % len(cs), acks=True))
        # many segments (per-flow budgets of segments show only there): one byte per segment behind the signature, and 17 / 33 / 65
        # segments
        sig = min(len(s) - 1, 28 if kind == 'rpc' else (s.index(b' /') + 2 if b' /' in s else 8))
        if len(s) - sig >= 2:
            g['segs'].append(flow_case(s, tuple(range(sig, len(s))), 'one-byte-segments'))
            for nseg in (17, 33, 65):
                if len(s) - sig >= nseg:
                    g['segs'].append(flow_case(s, tuple(range(sig, sig + nseg - 1)), 'cuts%d' % (nseg - 1)))
        small = [cs for cs in cutsets if min(b - a for a, b in zip((0,) + cs, cs + (len(s),))) <= 5]
        for cs in small[:: max(1, len(small) // 60)][:70]:
            g['segs'].append(flow_case(s, cs, 'cuts%d-padded' % len(cs), pad=True))
        groups.append(g)
        cases += [g['whole']] + g['prefixes'] + g['segs']
    # large requests (complete exactly at their last byte): MSS-sized segments, cuts around power-of-two
    # stream offsets, random k-cuts — per-flow byte counters and buffers show here, not in short streams
    for kind, s in gen_large_streams(rng, tier):
        g = {'stream': s, 'kind': kind, 'whole': flow_case(s, (), 'whole'), 'prefixes': [], 'segs': [], 'trigger': len(s)}
        cutsets = []
        for mss in (1460, 1448, 1220, 536, 4000):
            cutsets.append(tuple(range(mss, len(s), mss)))
        for b in (4096, 8192, 16384):
            for d in (-1, 0, 1, 2):
                if 0 < b + d < len(s):
                    cutsets.append((b + d,))
                    cutsets.append(tuple(sorted({max(1, (b + d) // 2), b + d})))
        for _ in range(4 if tier == 'quick' else 40):
            cutsets.append(tuple(sorted(set(1 + rng.below(len(s) - 1) for _ in range(2 + rng.below(8))))))
        for cs in cutsets:
            g['segs'].append(flow_case(s, cs, 'large-cuts%d' % len(cs)))
        groups.append(g)
        cases += [g['whole']] + g['segs']
    # signature length of each stream from the real matcher
    sigops = [('C', w.cfg())] + [('S', 'proto', 0, 0, g['stream']) for g in groups]
    sb, _, _, _ = run_impl(sigops)
    for g, b in zip(groups, sb[1:]):
        parts = b['r'].split()
        g['siglen'] = int(parts[2]) if parts[0] != 'none' else None
    run_cases(cases)
    violations, disagreements, samples = [], [], []
    evaluations = nontrivial = 0
    for g in groups:
        s = g['stream']
        whole = seg_kind(g['whole']['impl'][-1])
        trigger = None
        for n, pc in enumerate(g['prefixes'], 1):
            if seg_kind(pc['impl'][-1])[0] == 'data':
                trigger = n
                break
        if g.get('trigger') is not None and whole[0] == 'data':
            trigger = g['trigger']
        for c in g['segs']:
            evaluations += 1
            obs = [seg_kind(b) for k, b in enumerate(c['impl'][2:]) if k not in c.get('skip', ())]
            bounds = list(c['cuts']) + [len(s)]
            ok, why = True, ''
            start = 0
            for (kind, app), end in zip(obs, bounds):
                if trigger is None or end < trigger:
                    if kind != 'ack':
                        ok, why = False, 'segment before completion answered with %s' % kind
                        break
                elif start < trigger <= end:
                    if kind != 'data' or app != whole[1]:
                        ok, why = False, 'completing segment: %s instead of the reply of the unsegmented stream' % kind
                    break
                start = end
            if trigger is not None:
                nontrivial += 1
            if not ok:
                v = {'clause': why, 'ops': [op_to_json(x) for x in c['ops']], 'tags': c['tags'], 'cuts': list(c['cuts']), 'stream': s.hex(),
                     'trigger': trigger}
                if g['siglen'] is not None and c['cuts'] and c['cuts'][0] < g['siglen']:
                    v['cut_inside_signature'] = True
                violations.append(v)
            elif len(samples) < 3 and trigger is not None:
                samples.append({'stream': s.hex(), 'cuts': list(c['cuts']), 'trigger_byte': trigger, 'per_segment': [k for k, _ in obs]})
    compared, exact = _corr(cases, lambda o, b: (seg_kind(b)[0], app_class(seg_kind(b)[1])), disagreements)
    dist = {'streams': len(groups), 'compositions': evaluations, 'kinds': {k: sum(1 for g in groups if g['kind'] == k) for k in ('http', 'rpc')}}
    return _result(evaluations, nontrivial, samples, compared, exact, disagreements, violations, pd['rule'], dist)


def canon_app(reply_hex, portdelta):
    """application reply with env and endpoint-bearing fields blanked (C19)"""
    if reply_hex == '-':
        return ('silent', portdelta)
    r = bytes.fromhex(reply_hex)
    if len(r) >= 20 and r[0] == 1 and r[1] == 1:
        return ('stun', r[4:20], portdelta)                       # MAPPED-ADDRESS (and the length it implies) masked
    if r[:4] == b'HTTP' or r[:4] == b'SSH-' or r[:5] == b'Gh0st' or r[4:8] in (b'\xffSMB', b'\xfeSMB'):
        return ('bytes', mask_env(r), portdelta)
    body = r
    if len(r) >= 28 and r[0] & 0x80 and struct.unpack('>I', r[:4])[0] - 0x80000000 == len(r) - 4 and r[8:12] == b'\0\0\0\1':
        body = r[4:]
    if len(body) >= 24 and body[4:8] == b'\0\0\0\1' and body[8:20] == bytes(12):
        stat = body[20:24]
        rest = body[24:]
        # portmapper results carry the contacted endpoint: keep only their presence
        return ('rpc', body[:4], stat, rest if stat != bytes(4) else (b'results' if rest else b''), portdelta)
    if len(r) >= 12 and r[2] & 0x80:
        # DNS: keep header and questions, blank RDLENGTH/RDATA of the answers
        qd = struct.unpack('>H', r[4:6])[0]
        return ('dns', r[:12], qd, portdelta)
    return ('bytes', mask_env(r), portdelta)


def explore_c19(prop, pd, tier, rng, corpus_cases):
    w = World(rng, selfmode=False, denymode=False)
    n = 400 if tier == 'quick' else 6000
    ops = [('C', w.cfg()), ('X',)]
    groups = []
    for _ in range(n):
        tcp = rng.chance(1, 2)
        kind, fault, pl = gen.gen_app(rng, tcp=tcp)
        variants = []
        for v6 in (False, True):
            for (sp, dp) in [(rng.u16(), rng.u16()), (rng.choice([0, 65535, 1]), rng.choice([0, 65535, 80])), (rng.u16(), rng.choice([65535, 53, 3478, 111]))]:
                ops.append(app_op(rng, w, pl, tcp=tcp, v6=v6, sport=sp, dport=dp))
                variants.append(len(ops) - 1)
        groups.append((kind, fault, tcp, pl, variants))
    # frame level: the same UDP payload through real frames, including the source port for which the request's
    # UDP checksum field is 0xFFFF (computed 0) and, over IPv4, a request without checksum (field 0)
    fgroups = []
    for gi in range(16 if tier == 'quick' else 120):
        kind, fault, pl = gen.gen_app(rng, tcp=False, kinds=['dns', 'stun', 'rpc', 'http', 'ssh', 'stun'])
        if gi % 4 == 0:
            # cookie-less STUN forms (identified only as exactly 20 / 28 bytes), zero and random transaction ids, change flags
            tid = rng.choice([bytes(16), rng.bytes(16), bytes(8) + rng.bytes(8)])
            kind, fault = 'stun', 'classic'
            pl = rng.choice([b'\x00\x01\x00\x00' + tid,
                             b'\x00\x01\x00\x08' + tid + b'\x00\x03\x00\x04' + struct.pack('>I', rng.choice([0, 2, 4, 6]))])
            if gi in (0, 4, 8):
                # deterministically: the change-port / change-both / plain request on every port of the list below (incl. 65535, where
                # the rewritten port wraps)
                pl = b'\x00\x01\x00\x08' + tid + b'\x00\x03\x00\x04' + struct.pack('>I', {0: 2, 4: 6, 8: 0}[gi])
        if gi % 4 == 1:
            # requests whose answer grows with the request (DNS: every question echoed + one record each): answer sizes around
            # 1232 / 1280 / 1452 / 1472 / 1500 bytes and far beyond
            kind, fault = 'dns', 'big-answer'
            nm = rng.choice([b'\x07example\x03com\x00', b'\x01a\x00', b''.join(bytes([63]) + bytes(0x61 + rng.below(26) for _ in range(63)) for _ in range(3)) + b'\x00'])
            per = 2 * len(nm) + 4 + 14
            nq = rng.choice([(lim - 12) // per + d for lim in (1232, 1280, 1452, 1472, 1500) for d in (-1, 0, 1)] + [40, 100]) if len(nm) < 100 else rng.choice([2, 3, 4, 5, 6])
            nq = max(1, min(nq, 3500 // (len(nm) + 4)))
            pl = struct.pack('>HHHHHH', rng.u16(), 0x0100, nq, 0, 0, 0) + (nm + struct.pack('>HH', 1, 1)) * nq
        variants = []
        for v6 in (False, True):
            s_, d_ = w.addrs(v6)
            dport = rng.choice([53, 3478, 111, rng.u16()])
            special = None
            for sp in range(65536):
                h = struct.pack('>HHHH', sp, dport, 8 + len(pl), 0)
                if csum16(pseudo(s_, d_, 17, 8 + len(pl)) + h + pl) == 0:
                    special = sp
                    break
            for sp in [rng.u16(), 0, 65535] + ([special] if special is not None else []):
                ops.append(('F', w.udp_frame(v6, sp, dport, pl)))
                variants.append(len(ops) - 1)
            if not v6:
                ops.append(('F', w.f4(17, udp(rng.u16(), dport, pl))))       # checksum field 0: no checksum
                variants.append(len(ops) - 1)
            # the same datagram to well-known and boundary destination ports, and to the second handled address
            for dp in (53, 5353, 3478, 111, 80, 22, 445, 137, 0, 1, 65534, 65535):
                ops.append(('F', w.udp_frame(v6, rng.u16(), dp, pl, second=rng.chance(1, 4))))
                variants.append(len(ops) - 1)
        fgroups.append((kind, fault, pl, variants))
    # TCP, through the real layers with the complete handshake a real client performs (SYN, the ACK acknowledging the cookie, then
    # the request): the answer to the request on the ports a responder might single out, on boundary ports, over both IP versions
    hgroups = []
    for kind in ('ssh', 'http', 'rpc', 'smb1', 'smb2', 'ghost', 'stun', 'ssh', 'http') * (1 if tier == 'quick' else 12):
        pl = gen.gen_stun_long(rng) if kind == 'stun' else gen.gen_app(rng, tcp=True, kinds=[kind])[2]
        variants, firsts = [], []
        for v6 in (False, True):
            s_, d_ = w.addrs(v6)
            for dp in gen.PORTS + [0, 65535, rng.u16()]:
                _ck[0] += 1
                sp = 1024 + _ck[0] % 60000
                ck = w.cookie(s_, d_, sp, dp)
                seq = rng.u32()
                firsts.append(len(ops))
                ops.append(('F', w.tcp_frame(v6, sp, dp, seq, 0, 0x02)))
                ops.append(('F', w.tcp_frame(v6, sp, dp, (seq + 1) & 0xffffffff, (ck + 1) & 0xffffffff, 0x10)))
                ops.append(('F', w.data_frame(v6, sp, dp, (seq + 1) & 0xffffffff, pl)))
                variants.append(len(ops) - 1)
        hgroups.append((kind, pl, variants, firsts))
    if w.key == (0, 0) or True:
        # corpus: under key (0,0) the flow 10.0.180.59:61397 -> 198.51.100.7:22 has cookie 0xFFFFFFFF, so its first data
        # segment acknowledges 0 (32-bit wrap); compared with the neighbouring source port
        try:
            k = case_from_json(json.load(open(os.path.join(CORPUS, 'cookie-ffffffff.json'))), 'cookie-ffffffff.json')
            s_, d_ = ip4('10.0.180.59'), ip4('198.51.100.7')
            wk = World(rng, selfmode=False, denymode=False, key=(0, 0))
            wk.mac, wk.cl_mac = MAC_ME, MAC_CL
            variants = []
            kops = [('C', wk.cfg()), ('X',)]
            for sp in (61397, 61398, 61396):
                ckk = cookie((0, 0), s_, d_, sp, 22)
                kops.append(('F', eth(MAC_ME, MAC_CL, 0x0800, ipv4(s_, d_, 6, lib.tcp(sp, 22, 5, (ckk + 1) & 0xffffffff, 0x18, b'SSH-2.0-x\r\n', src=s_, dst=d_)))))
            kcase = {'ops': kops, 'tags': ['cookie-ffffffff']}
        except FileNotFoundError:
            kcase = None
    c = {'ops': ops, 'tags': ['ports-versions']}
    run_cases([c] + ([kcase] if kcase else []))
    violations, disagreements, samples = [], [], []
    nontrivial = 0
    dist = {}
    if kcase:
        outs = [proj_headers(bytes.fromhex(b['r']))[-1] if outcome(b['r']) == 'reply' else outcome(b['r']) for b in kcase['impl'][2:]]
        if len(set(outs)) != 1:
            violations.append({'clause': 'answer depends on the port pair: the flow whose SYN cookie is 0xFFFFFFFF (first data acknowledges 0) is treated differently',
                               'ops': [op_to_json(x) for x in kcase['ops']], 'tags': ['cookie-ffffffff'], 'outs': [str(o) for o in outs]})
    for kind, fault, pl, variants in fgroups:
        outs = []
        for i in variants:
            r = c['impl'][i]['r']
            if outcome(r) == 'reply':
                d = split_reply(bytes.fromhex(r))
                reqf = c['ops'][i][1]
                rq = split_reply(reqf)
                delta = (d['udp'][0] - rq['udp'][1]) % 65536 if 'udp' in d and 'udp' in rq else None
                outs.append(canon_app((d.get('app') or b'').hex() or '-', delta))
            else:
                outs.append((outcome(r), 0) if outcome(r) != 'silent' else ('silent', 0))
        outs = [o if o[0] != 'silent' else ('silent',) for o in outs]
        if any(o[0] != 'silent' for o in outs):
            nontrivial += 1
        if len(set(o[:-1] if o[0] not in ('silent',) and isinstance(o[-1], int) and False else o for o in outs)) != 1:
            bad = next(i for i, o in enumerate(outs) if o != outs[0])
            violations.append({'clause': 'answer to the same UDP payload depends on ports / IP version / checksum representation (frame level): variant %d differs' % bad,
                               'ops': [op_to_json(ops[0]), ['X'], op_to_json(ops[variants[0]]), op_to_json(ops[variants[bad]])],
                               'tags': [kind, str(fault), 'frame-level'], 'outs': [str(outs[0])[:200], str(outs[bad])[:200]]})
    for kind, pl, variants, firsts in hgroups:
        outs = []
        for i in variants:
            r = c['impl'][i]['r']
            if outcome(r) == 'reply':
                d = split_reply(bytes.fromhex(r))
                rq = split_reply(c['ops'][i][1])
                delta = (d['tcp'][0] - rq['tcp'][1]) % 65536 if 'tcp' in d and 'tcp' in rq else None
                # the segments before the request may not carry application data either
                pre = tuple(bool(split_reply(bytes.fromhex(c['impl'][j]['r'])).get('app')) if outcome(c['impl'][j]['r']) == 'reply' else False for j in (i - 2, i - 1))
                outs.append(canon_app((d.get('app') or b'').hex() or '-', delta) + (pre,))
            else:
                outs.append((outcome(r),))
        if any(o[0] not in ('silent',) for o in outs):
            nontrivial += 1
        if len(set(outs)) != 1:
            bad = next(i for i, o in enumerate(outs) if o != outs[0])
            violations.append({'clause': 'answer to the same request after a complete handshake depends on the port / IP version: variant %d differs' % bad,
                               'ops': [op_to_json(ops[0]), ['X']] + [op_to_json(ops[j]) for j in range(firsts[0], firsts[0] + 3)] + [op_to_json(ops[j]) for j in range(firsts[bad], firsts[bad] + 3)],
                               'tags': [kind, 'handshake'], 'outs': [str(outs[0])[:200], str(outs[bad])[:200]]})
    for kind, fault, tcp, pl, variants in groups:
        outs = []
        for i in variants:
            parts = c['impl'][i]['r'].split()
            if parts[0] == 'PANIC':
                outs.append(('panic',))
                continue
            dport = c['ops'][i][5]
            outs.append(canon_app(parts[0], (int(parts[1]) - dport) % 65536))
        dist[kind] = dist.get(kind, 0) + 1
        if any(o[0] != 'silent' for o in outs):
            nontrivial += 1
        if len(set(outs)) != 1:
            bad = next(i for i, o in enumerate(outs) if o != outs[0])
            violations.append({'clause': 'answer depends on ports / IP version: variant %d differs from variant 0' % bad,
                               'ops': [op_to_json(ops[0]), ['X'], op_to_json(ops[variants[0]]), op_to_json(ops[variants[bad]])],
                               'tags': [kind, str(fault)], 'outs': [str(outs[0])[:200], str(outs[bad])[:200]]})
        elif len(samples) < 3 and outs[0][0] != 'silent':
            samples.append({'payload': pl.hex()[:200], 'transport': 'tcp' if tcp else 'udp', 'variants': len(variants), 'canonical_reply': str(outs[0])[:200]})
    # configurations with a self-IP list whose two families are not alike (one address of one family, several of the other; a
    # single family): requests that make a responder look for "another" address or port of the family (STUN CHANGE-REQUEST, every
    # flag word) and one request of each other protocol, the same payload over IPv4 and IPv6
    shape_cases = []
    for shape in range(5):
        w2 = World(rng, selfmode=True, denymode=False)
        w2.self = [[w2.my4, w2.my6, w2.my6b], [w2.my4, w2.my4b, w2.my6], [w2.my4, w2.my6], [w2.my4, w2.my4b, w2.my6, w2.my6b, rng.bytes(16)],
                   [w2.my4, w2.my6, rng.bytes(4), rng.bytes(4)]][shape]
        pls = [b'\x00\x01\x00\x08' + rng.bytes(16) + b'\x00\x03\x00\x04' + struct.pack('>I', fl) for fl in (0, 2, 4, 6, 7)]
        pls += [b'\x00\x01\x00\x00' + rng.bytes(16), gen.gen_stun_long(rng), struct.pack('>HHHHHH', 9, 0x0100, 1, 0, 0, 0) + b'\x01a\x00\x00\x01\x00\x01',
                gen.gen_rpc(rng, False), b'GET / HTTP/1.1\r\n\r\n']
        pls += [struct.pack('>HHHHHH', 9, 0x0100, 1, 0, 0, 0) + b'\x03www\x07example\x03com\x00' + struct.pack('>HH', qt, qc)
                for qt in (1, 28, 255, 16, 2, 5, 6, 12, 15, 33, 41, 65) for qc in (1, 255)]
        sops = [('C', w2.cfg()), ('X',)]
        pairs = []
        for pl in pls:
            sops.append(('F', w2.udp_frame(False, 4000, 3478, pl)))
            sops.append(('F', w2.udp_frame(True, 4000, 3478, pl)))
            pairs.append((len(sops) - 2, len(sops) - 1, pl))
        sc = {'ops': sops, 'tags': ['self-list-shape-%d' % shape], 'pairs': pairs}
        shape_cases.append(sc)
    run_cases(shape_cases)
    for sc in shape_cases:
        for i4, i6, pl in sc['pairs']:
            outs = []
            for i in (i4, i6):
                r = sc['impl'][i]['r']
                if outcome(r) == 'reply':
                    d = split_reply(bytes.fromhex(r.split()[0]))
                    rq = split_reply(sc['ops'][i][1])
                    outs.append(canon_app((d.get('app') or b'').hex() or '-', (d['udp'][0] - rq['udp'][1]) % 65536 if 'udp' in d else None))
                else:
                    outs.append((outcome(r),))
            if outs[0][0] != 'silent':
                nontrivial += 1
            if outs[0] != outs[1]:
                violations.append({'clause': 'answer to the same UDP payload differs between IPv4 and IPv6 under a self-IP list whose families are not alike',
                                   'ops': [op_to_json(sc['ops'][0]), ['X'], op_to_json(sc['ops'][i4]), op_to_json(sc['ops'][i6])],
                                   'tags': sc['tags'], 'outs': [str(outs[0])[:200], str(outs[1])[:200]]})
    compared, exact = _corr([c] + shape_cases, lambda o, b: proj_a(b['r']) if o[0] == 'A' else proj_headers(bytes.fromhex(b['r'])) if outcome(b['r']) == 'reply' else outcome(b['r']), disagreements)
    return _result(len(groups) * 6, nontrivial, samples, compared, exact, disagreements, violations, pd['rule'], {'kinds': dist})


def icmp_errors_about(mymac, key, l4proto=6, extra=b''):
    """ICMP / ICMPv6 error messages a router (or the peer) might send about OUR packets of the flow `key` = (version, client address,
    our address, client port bytes, our port bytes): destination unreachable incl. fragmentation needed with several MTUs, time
    exceeded, redirect, source quench, parameter problem; packet too big -- each quoting the IP header + first bytes of a packet
    from us to the client. Sent by a third party and by the client itself."""
    ver, cl, us, cport, uport = key
    quoted_l4 = uport + cport + bytes(4) + extra      # our packet: ports swapped, 4 more bytes (TCP seq / UDP length+checksum)
    out = []
    rmac = bytes.fromhex('02aabbccdd03')
    if ver == 4:
        q = ipv4(us, cl, l4proto, quoted_l4 + bytes(12))[:28 + len(extra)]
        for sender in (bytes([203, 0, 113, 1]), cl):
            # (the smallest MTU last: it is the one a path-MTU cache would keep)
            for ty, code, rest in ((3, 4, b'\x00\x00\x05\x00'), (3, 4, b'\x00\x00\x02\x40'), (3, 1, bytes(4)), (3, 3, bytes(4)),
                                   (3, 13, bytes(4)), (11, 0, bytes(4)), (5, 1, us), (4, 0, bytes(4)), (12, 0, b'\x14\x00\x00\x00'), (3, 4, b'\x00\x00\x00\x44')):
                out.append(eth(mymac, rmac, 0x0800, ipv4(sender, us, 1, icmp(ty, code, rest + q))))
    else:
        q = ipv6(us, cl, l4proto, quoted_l4 + bytes(12))
        for sender in (ip6('2001:db8:ffff::1'), cl):
            for ty, code, rest in ((2, 0, b'\x00\x00\x05\x00'), (1, 0, bytes(4)), (1, 4, bytes(4)), (3, 0, bytes(4)), (4, 1, b'\x00\x00\x00\x28'), (2, 0, b'\x00\x00\x00\x44')):
                out.append(eth(mymac, rmac, 0x86dd, ipv6(sender, us, 58, icmp6(ty, code, rest + q, sender, us))))
    return out


def explore_c08(prop, pd, tier, rng, corpus_cases):
    """reply(f | h) = reply(f | h restricted to accepted data segments of f's own flow)"""
    base = gen_flows(rng, tier, nflows=4, steps=40)
    run_cases(base, want_model=False)
    cases, groups = [], []
    for bc in base[: (12 if tier == 'quick' else 200)]:
        cfgop = bc['ops'][0]
        frames = [o[1] for o in bc['ops'][2:]]
        repl = [b['r'] for b in bc['impl'][2:]]
        # probe = each of the last 6 frames that is a TCP segment
        for pi in range(max(0, len(frames) - 6), len(frames)):
            f = frames[pi]
            key = flow_key(f)
            if key is None:
                continue
            hist = frames[:pi]
            own = [h for h, r in zip(hist, repl[:pi]) if flow_key(h) == key and is_data(h) and outcome(r) == 'reply']
            others = [h for h in hist if flow_key(h) != key]
            # an answered ARP request announcing the probe's source address at another MAC (neighbour caches), IPv4 probes only
            spoof = []
            if key[0] == 4:
                spoof = [eth(BCAST, bytes.fromhex('02aabbccdd01'), 0x0806, arp(1, bytes.fromhex('02aabbccdd01'), key[1], bytes(6), key[2]))]
            errs = icmp_errors_about(cfgop[1]['mac'], key)
            variants = [hist, own, own + others[:10], others[:5] + own, own + [gen.gen_frame(rng, World(rng))[1] for _ in range(5)],
                        spoof + own + spoof, own + errs, errs + own, own + [tjump(rng.choice([65, 3600, 40000000]))]]
            ids = []
            for vh in variants:
                c = {'ops': [cfgop, ('X',)] + [('F', x) if isinstance(x, (bytes, bytearray)) else x for x in vh] + [('F', f)], 'tags': ['noninterference']}
                cases.append(c)
                ids.append(len(cases) - 1)
            groups.append((ids, f, cfgop))
    # corpus: the known cookie collision (K1): probe of flow B after an accepted data segment of flow A
    try:
        k1 = case_from_json(json.load(open(os.path.join(CORPUS, 'K1-collision.json'))), 'K1-collision.json')
        fa, fb = k1['ops'][2][1], k1['ops'][3][1]
        ids = []
        for vh in ([fa], []):
            cases.append({'ops': [k1['ops'][0], ('X',)] + [('F', x) for x in vh] + [('F', fb)], 'tags': ['corpus:K1']})
            ids.append(len(cases) - 1)
        groups.append((ids, fb, k1['ops'][0]))
    except FileNotFoundError:
        pass
    # stateless probes: UDP requests of every protocol, echo requests, ARP requests, neighbour solicitations -- their reply may not
    # depend on ANY history. The histories are made of near-duplicates of the probe (the same payload from other endpoints, with the
    # case of its letters flipped, with one byte changed, sent to the second handled address, over the other transport): caches
    # keyed by a normalisation of the request show up there
    sw = World(rng, selfmode=rng.chance(1, 2), denymode=False)
    if sw.self is not None:
        sw.self = [sw.my4, sw.my6, sw.my4b, sw.my6b]      # (every probe is addressed to a handled address)
    swcfg = ('C', sw.cfg())

    def uframe(v6, src, dst, mac, sp, dp, pl):
        l4 = lib.udp(sp, dp, pl, src=src, dst=dst)
        return eth(sw.mac, mac, 0x86dd if v6 else 0x0800, ipv6(src, dst, 17, l4) if v6 else ipv4(src, dst, 17, l4))

    def flipcase(b):
        return bytes(c ^ 0x20 if (65 <= c <= 90 or 97 <= c <= 122) else c for c in b)

    for _ in range(40 if tier == 'quick' else 800):
        v6 = rng.chance(1, 2)
        src, dst = sw.addrs(v6)
        dst2 = sw.my6b if v6 else sw.my4b
        src2 = bytes([src[0] ^ 1]) + src[1:]
        mac2 = bytes.fromhex('02aabbccdd02')
        kind = rng.choice(['dns', 'dns', 'dns', 'stun', 'rpc', 'http', 'ssh', 'ghost', 'smb1', 'echo', 'arp', 'ns'])
        sp, dp = rng.u16(), rng.choice([53, 5353, 3478, 111, rng.u16()])
        if kind in ('echo', 'arp', 'ns'):
            body = bytes(0x61 + rng.below(26) for _ in range(8 + rng.below(24)))
            if kind == 'arp':
                mk = lambda s_, d_, m_, b_: eth(BCAST, m_, 0x0806, arp(1, m_, s_ if len(s_) == 4 else sw.cl4, bytes(6), d_ if len(d_) == 4 else sw.my4, pad=b_[:rng.below(4) * 0]))
                v6 = False
                src, dst, dst2, src2 = sw.cl4, sw.my4, sw.my4b, bytes([sw.cl4[0] ^ 1]) + sw.cl4[1:]
            elif kind == 'ns':
                v6 = True
                src, dst, dst2, src2 = sw.cl6, sw.my6, sw.my6b, bytes([sw.cl6[0] ^ 1]) + sw.cl6[1:]
                mk = lambda s_, d_, m_, b_: eth(sw.mac, m_, 0x86dd, ipv6(s_, d_, 58, icmp6(135, 0, bytes(4) + d_ + b'\x01\x01' + m_, s_, d_), hlim=255))
            else:
                mk = lambda s_, d_, m_, b_: eth(sw.mac, m_, 0x86dd if v6 else 0x0800,
                                                ipv6(s_, d_, 58, icmp6(128, 0, b_, s_, d_)) if v6 else ipv4(s_, d_, 1, icmp(8, 0, b_)))
            probe = mk(src, dst, sw.cl_mac, body)
            near = [mk(src2, dst, sw.cl_mac, body), mk(src, dst, mac2, body), mk(src, dst2, sw.cl_mac, body), mk(src2, dst, mac2, flipcase(body)),
                    mk(src, dst, sw.cl_mac, flipcase(body)), mk(src, dst, sw.cl_mac, body)]
        else:
            pl = gen.gen_app(rng, tcp=False, kinds=[kind])[2]
            if kind == 'dns' and rng.chance(2, 3):
                nm = b''.join(bytes([len(l)]) + l for l in [bytes(rng.choice(list(b'abcXYZ019-')) for _ in range(1 + rng.below(9))) for _ in range(1 + rng.below(3))]) + b'\x00'
                nq = rng.choice([1, 1, 2])
                pl = struct.pack('>HHHHHH', rng.u16(), 0x0100, nq, 0, 0, 0) + (nm + struct.pack('>HH', 1, 1)) * nq
            b1 = bytearray(pl or b'x')
            b1[rng.below(len(b1))] ^= 1 << rng.below(8)
            probe = uframe(v6, src, dst, sw.cl_mac, sp, dp, pl)
            near = [uframe(v6, src2, dst, sw.cl_mac, sp, dp, flipcase(pl)), uframe(v6, src, dst, mac2, sp ^ 1, dp, pl),
                    uframe(v6, src, dst2, sw.cl_mac, sp, dp, pl), uframe(v6, src2, dst, mac2, sp, dp, bytes(b1)),
                    uframe(v6, src, dst, sw.cl_mac, sp, dp, flipcase(pl)), uframe(v6, src, dst, sw.cl_mac, sp, dp, pl),
                    sw.data_frame(v6, sp, dp, rng.u32(), flipcase(pl) or b'x')]
            # unfinished versions of the probe from another endpoint (a parser shared between datagrams would keep their state):
            # cut after the first line, at a random byte, one byte short
            cutpoints = sorted(set([pl.find(b'\n') + 1 if b'\n' in pl else len(pl) // 2, rng.below(len(pl) + 1), max(0, len(pl) - 1)]))
            near += [uframe(v6, src2, dst, mac2, sp ^ 2, dp, pl[:k]) for k in cutpoints if 0 < k < len(pl)]
        if kind not in ('echo', 'arp', 'ns') and not v6 and rng.chance(1, 3):
            # the probe is the LAST fragment of the datagram (offset > 0, no more fragments); the histories hold matching first
            # fragments (same addresses, protocol and identification) of this flow and of another one: a reassembly queue keyed
            # without the ports would let them change the answer to the probe
            whole = lib.udp(sp, dp, pl, src=src, dst=dst)
            whole2 = lib.udp(sp ^ 0x0101, dp, pl, src=src, dst=dst)
            if len(whole) > 16:
                ident = rng.u16() or 1
                fr = lambda l4part, ff: eth(sw.mac, sw.cl_mac, 0x0800, ipv4(src, dst, 17, l4part, flags_frag=ff, ident=ident))
                probe = fr(whole[16:], 0x0002)
                near = [fr(whole[:16], 0x2000), fr(whole2[:16], 0x2000), fr(whole[:16], 0x2000), fr(whole[:8], 0x2000), fr(whole[8:16], 0x2001),
                        uframe(v6, src, dst, sw.cl_mac, sp, dp, pl), fr(whole, 0), fr(whole2[:16], 0x2000)]
                kind = kind + '-fragment'
        rng_near = [near[rng.below(len(near))] for _ in range(4)]
        variants = [[], near, near[:1], near[4:5], rng_near + [gen.gen_frame(rng, sw)[1] for _ in range(4)], near + near] + [[x] for x in near[7:]]
        pk = split_reply(probe)
        if 'ip' in pk and ('udp' in pk or kind == 'echo'):
            # error messages about our (future) answers to this very peer, and time passing after a near-duplicate
            ports = (struct.pack('>H', pk['udp'][0]), struct.pack('>H', pk['udp'][1])) if 'udp' in pk else (b'\x00\x00', b'\x00\x00')
            fk = (6 if v6 else 4, pk['ip'][0], pk['ip'][1], ports[0], ports[1])
            variants.append(icmp_errors_about(sw.mac, fk, l4proto=17 if 'udp' in pk else (58 if v6 else 1)))
        variants.append(near[:2] + [tjump(rng.choice([65, 3600, 40000000]))])
        ids = []
        for vh in variants:
            cases.append({'ops': [swcfg, ('X',)] + [('F', x) if isinstance(x, (bytes, bytearray)) else x for x in vh] + [('F', probe)], 'tags': ['stateless-probe', 'probe:' + kind]})
            ids.append(len(cases) - 1)
        groups.append((ids, probe, swcfg))
    # deterministically: last fragments of valid requests (STUN, DNS, HTTP over UDP/IPv4) with first fragments of the same and of
    # another flow in the histories
    fw = World(rng, selfmode=False, denymode=False)
    fwcfg = ('C', fw.cfg())
    for pl, dp in ((b'\x00\x01\x00\x08' + bytes(range(16)) + b'\x00\x03\x00\x04\x00\x00\x00\x02', 3478),
                   (struct.pack('>HHHHHH', 7, 0x0100, 1, 0, 0, 0) + b'\x03www\x07example\x03com\x00' + struct.pack('>HH', 1, 1), 53),
                   (b'GET /index.html HTTP/1.1\r\nHost: a\r\n\r\n', 80)):
        src, dst = fw.addrs(False)
        for cut in (8, 16, 24):
            whole, whole2 = lib.udp(1111, dp, pl, src=src, dst=dst), lib.udp(2222, dp, pl, src=src, dst=dst)
            if len(whole) <= cut:
                continue
            fr = lambda l4part, ff: eth(fw.mac, fw.cl_mac, 0x0800, ipv4(src, dst, 17, l4part, flags_frag=ff, ident=0x0c08))
            probe = fr(whole[cut:], cut // 8)
            a1, b1 = fr(whole[:cut], 0x2000), fr(whole2[:cut], 0x2000)
            ids = []
            for vh in ([], [a1], [a1, b1], [b1], [b1, a1], [fr(whole, 0)]):
                cases.append({'ops': [fwcfg, ('X',)] + [('F', x) for x in vh] + [('F', probe)], 'tags': ['stateless-probe', 'probe:last-fragment']})
                ids.append(len(cases) - 1)
            groups.append((ids, probe, fwcfg))
    # deterministically: a valid request over UDP after unfinished versions of it (and of other requests of the protocol) from another endpoint
    for pl, dp in ((b'GET / HTTP/1.1\r\nHost: a\r\n\r\n', 80), (b'POST /x HTTP/1.0\n\n', 8080),
                   (struct.pack('>HHHHHH', 7, 0x0100, 1, 0, 0, 0) + b'\x03www\x07example\x03com\x00' + struct.pack('>HH', 1, 1), 53),
                   (b'\x00\x01\x00\x08' + bytes(range(16)) + b'\x00\x03\x00\x04\x00\x00\x00\x02', 3478),
                   (struct.pack('>IIIIIIIIII', 0x71223344, 0, 2, 100000, 2, 3, 0, 0, 0, 0), 111)):
        for v6 in (False, True):
            src, dst = fw.addrs(v6)
            src2 = bytes([src[0] ^ 1]) + src[1:]
            mk = lambda s_, sp_, p_: eth(fw.mac, fw.cl_mac, 0x86dd if v6 else 0x0800,
                                         ipv6(s_, dst, 17, lib.udp(sp_, dp, p_, src=s_, dst=dst)) if v6 else ipv4(s_, dst, 17, lib.udp(sp_, dp, p_, src=s_, dst=dst)))
            probe = mk(src, 1111, pl)
            cuts = sorted(set([pl.find(b'\n') + 1 if b'\n' in pl else len(pl) // 2, len(pl) // 2, len(pl) - 1, len(pl) - 2, 12, 1]))
            ids = []
            for vh in [[]] + [[mk(src2, 2222, pl[:k])] for k in cuts if 0 < k < len(pl)] + [[mk(src2, 2222, pl[:k]) for k in cuts if 0 < k < len(pl)]]:
                cases.append({'ops': [fwcfg, ('X',)] + [('F', x) for x in vh] + [('F', probe)], 'tags': ['stateless-probe', 'probe:after-unfinished']})
                ids.append(len(cases) - 1)
            groups.append((ids, probe, fwcfg))
    # every variant in a fresh implementation process: state kept outside the connection table (which `X` cannot reset) would
    # otherwise leak from one variant into the next and make all of them agree
    run_cases(cases, isolate=True)
    violations, disagreements, samples = [], [], []
    nontrivial = 0
    # flood: more validated flows than any plausible table bound between the two halves of one request
    # (implementation only: the model's table is an association list)
    nflood = 70000 if tier == 'quick' else 140000
    fcfg = default_cfg()
    fkey = tuple(fcfg['key'])
    my, cl = bytes([10, 0, 0, 1]), bytes.fromhex('020000000001')
    vsrc, vsp = bytes([1, 2, 3, 4]), 40000
    vck = cookie(fkey, vsrc, my, vsp, 80)
    h1, h2 = b'GET / HT', b'TP/1.1\r\nHost: a\r\n\r\n'
    seg = lambda src, sp, seq, ck, pl: eth(fcfg['mac'], cl, 0x0800, ipv4(src, my, 6, lib.tcp(sp, 80, seq, (ck + 1) & 0xffffffff, 0x18, pl)))
    v1, v2 = seg(vsrc, vsp, 1000, vck, h1), seg(vsrc, vsp, 1000 + len(h1), vck, h2)
    # second victim: its first segment completes no signature yet (the flow is still unidentified during the flood)
    wsp = 40001
    wck = cookie(fkey, vsrc, my, wsp, 80)
    w1, w2 = seg(vsrc, wsp, 500, wck, b'Gh0'), seg(vsrc, wsp, 503, wck, b'st' + bytes(20))
    flood, clash = [], False
    low = {}    # flows whose cookie agrees with the first victim's in the low 8 / 12 / 16 bits (hashed or truncated table slots)
    for i in range(nflood):
        src, sp = bytes([11 + (i >> 16), (i >> 8) & 255, i & 255, 7]), 1024 + (i % 60000)
        ck = cookie(fkey, src, my, sp, 80)
        clash = clash or ck == vck or ck == wck
        for bits in (8, 12, 16):
            if ck != vck and (ck ^ vck) & ((1 << bits) - 1) == 0 and bits not in low:
                low[bits] = seg(src, sp, 1, ck, b'xx')
        flood.append(seg(src, sp, 1, ck, b'xx'))
    fl = [{'ops': [('C', fcfg), ('X',)] + [('F', x) for x in [v1, w1] + flood + [w2, v2]], 'tags': ['flood']},
          {'ops': [('C', fcfg), ('X',)] + [('F', x) for x in [v1, w1, w2, v2]], 'tags': ['flood-own-only']},
          {'ops': [('C', fcfg), ('X',)] + [('F', x) for x in [v1] + [low[b] for b in sorted(low)] + [v2]], 'tags': ['low-bits-twins']},
          {'ops': [('C', fcfg), ('X',)] + [('F', x) for x in [v1, v2]], 'tags': ['low-bits-own-only']}]
    run_cases(fl, want_model=False)
    fo = [(proj_probe(c['impl'][-1]['r']), proj_probe(c['impl'][-2]['r'])) if len(c['impl']) > 3 else ('dead',) for c in fl]
    if fo[2][0] != fo[3][0]:
        violations.append({'clause': 'reply to the second half of a request differs after flows whose cookies share the low %s bits with this flow\'s cookie' % sorted(low),
                           'ops': [op_to_json(x) for x in fl[2]['ops']], 'own_only_ops': [op_to_json(x) for x in fl[3]['ops']],
                           'full_history_reply': str(fo[2][0])[:300], 'own_only_reply': str(fo[3][0])[:300], 'tags': ['low-bits-twins'],
                           'cookie_collision': False})
    if fo[0] != fo[1]:
        violations.append({'clause': 'reply to the second half of a request differs after %d other validated flows (full history vs own flow only)' % nflood,
                           'ops': [op_to_json(x) for x in fl[1]['ops']],
                           'flood': {'flows': nflood, 'how': 'flow i: src (11+(i>>16)).((i>>8)&255).(i&255).7, sport 1024+(i%60000), dport 80, one PSH|ACK segment "xx" with ack = cookie+1, between the two frames'},
                           'full_history_reply': str(fo[0])[:300], 'own_only_reply': str(fo[1])[:300], 'tags': ['flood'],
                           'cookie_collision': clash})
    elif fo[0][0] == 'reply':
        nontrivial += 1
    for ids, f, cfgop in groups:
        outs = []
        for i in ids:
            b = cases[i]['impl'][-1]
            outs.append(proj_probe(b['r']))
        if outs[0][0] == 'reply':
            nontrivial += 1
        if len(set(outs)) != 1:
            bad = next(i for i, o in enumerate(outs) if o != outs[0])
            v = {'clause': 'reply to the probe frame differs between the full history and variant %d' % bad,
                 'ops': [op_to_json(x) for x in cases[ids[bad]]['ops']], 'full_history_ops': [op_to_json(x) for x in cases[ids[0]]['ops']],
                 'tags': ['noninterference']}
            if collision_with([o[1] for o in cases[ids[0]]['ops'][2:]], cfgop[1]['key'], f):
                v['cookie_collision'] = True
            violations.append(v)
        elif len(samples) < 3 and outs[0][0] == 'reply':
            samples.append({'probe': f.hex()[:200], 'history_lengths': [len(cases[i]['ops']) - 3 for i in ids], 'reply': str(outs[0])[:160]})
    compared, exact = _corr(cases, lambda o, b: proj_headers(bytes.fromhex(b['r'])) if outcome(b['r']) == 'reply' else outcome(b['r']), disagreements)
    return _result(len(groups) * 6, nontrivial, samples, compared, exact, disagreements, violations, pd['rule'],
                   {'probes': len(groups), 'histories': len(cases)})


def proj_probe(r):
    if outcome(r) != 'reply':
        return (outcome(r),)
    d = split_reply(bytes.fromhex(r))
    # (the UDP length is left out: it follows from the payload, whose wall-clock text may change length with the date)
    return ('reply', d.get('l2'), d.get('ip'), d.get('tcp'), (d.get('udp') or (None,))[:2], mask_env(d.get('app')) if d.get('app') is not None else d.get('l4') or d.get('arp'))


def flow_key(f):
    """(version, src, dst, sport, dport) of a TCP frame, else None"""
    if len(f) < 14:
        return None
    ety = struct.unpack('>H', f[12:14])[0]
    p = f[14:]
    if ety == 0x0800 and len(p) >= 20 and p[9] == 6:
        ihl = max((p[0] & 15) * 4, 20)
        t = p[ihl:]
        if len(t) >= 20:
            return (4, p[12:16], p[16:20], t[0:2], t[2:4])
    if ety == 0x86dd and len(p) >= 60 and p[6] == 6:
        t = p[40:]
        return (6, p[8:24], p[24:40], t[0:2], t[2:4])
    return None


def is_data(f):
    k = flow_key(f)
    if k is None:
        return False
    p = f[14:]
    t = p[max((p[0] & 15) * 4, 20):] if k[0] == 4 else p[40:]
    return (t[13] & 0x18) == 0x18


def collision_in(frames, key):
    seen = {}
    for f in frames:
        k = flow_key(f)
        if k is None:
            continue
        ck = cookie(key, k[1], k[2], struct.unpack('>H', k[3])[0], struct.unpack('>H', k[4])[0])
        if ck in seen and seen[ck] != k:
            return True
        seen[ck] = k
    return False


def collision_with(frames, key, probe):
    """does another flow of the history share the probe flow's cookie? (K1)"""
    pk = flow_key(probe)
    if pk is None:
        return False
    ck = lambda k: cookie(key, k[1], k[2], struct.unpack('>H', k[3])[0], struct.unpack('>H', k[4])[0])
    pc = ck(pk)
    return any(k is not None and k != pk and ck(k) == pc for k in map(flow_key, frames))


def reflect_class(r):
    """coarse protocol class of an application payload (for C12)"""
    if r[:5] == b'HTTP/':
        return 'http'
    if r[:4] == b'SSH-':
        return 'ssh'
    if r[:5] == b'Gh0st':
        return 'ghost'
    if len(r) >= 8 and r[4:8] in (b'\xffSMB', b'\xfeSMB'):
        return 'smb'
    if len(r) >= 20 and r[0] < 2 and (r[1] & 0xef) == 1 and struct.unpack('>H', r[2:4])[0] == len(r) - 20:
        return 'stun'
    if len(r) >= 24 and (r[4:8] == b'\0\0\0\1' or (len(r) >= 28 and r[8:12] == b'\0\0\0\1' and r[0] & 0x80)):
        return 'rpc'
    if len(r) >= 12 and r[2] & 0x80:
        return 'dns'
    return 'other'


def explore_c12(prop, pd, tier, rng, corpus_cases):
    w = World(rng, selfmode=rng.chance(1, 2), denymode=False)
    s4, d4 = w.addrs(False)
    s6, d6 = w.addrs(True)
    n = 60 if tier == 'quick' else 1500
    # --- layer 2-4 reply-typed messages: must get no reply at all
    frames = []
    for _ in range(n):
        frames.append(('arp-reply', eth(rng.choice([w.mac, BCAST]), w.cl_mac, 0x0806, arp(2, w.cl_mac, w.cl4, w.mac, w.my4, pad=rng.bytes(rng.below(10))))))
        frames.append(('arp-reply', eth(rng.choice([w.mac, BCAST]), w.cl_mac, 0x0806,
                                        arp(2, w.cl_mac, rng.choice([w.my4, w.my4b, w.cl4]), rng.choice([w.mac, bytes(6), BCAST]), rng.choice([w.my4, w.my4b, w.cl4])))))
        frames.append(('icmp-echo-reply', w.f4(1, icmp(0, 0, rng.bytes(4 + rng.below(40))))))
        frames.append(('icmp6-echo-reply', w.f6(58, icmp6(129, 0, rng.bytes(4 + rng.below(40)), s6, d6))))
        frames.append(('icmp6-na', w.f6(58, icmp6(136, 0, bytes([0x60, 0, 0, 0]) + rng.choice([w.my6, w.cl6]) + bytes([2, 1]) + w.cl_mac, s6, d6))))
        v6 = rng.chance(1, 2)
        frames.append(('tcp-synack', w.tcp_frame(v6, rng.u16(), rng.u16(), rng.u32(), rng.u32(), 0x12, rng.choice([b'', b'x']))))
        frames.append(('tcp-rst', w.tcp_frame(v6, rng.u16(), rng.u16(), rng.u32(), rng.u32(), rng.choice([0x04, 0x14]))))
        # reply-typed segments that carry data and acknowledge the valid cookie (TCP Fast Open SYN|ACK, RST with text),
        # the second one on a flow that already has a control block
        sp, dp = rng.u16(), rng.u16()
        fl = rng.choice([0x12, 0x14, 0x04, 0x12 | 0x40, 0x14 | 0x20])
        pl = rng.choice([b'x', b'GET / HTTP/1.1\r\n\r\n', gen.gen_app(rng, tcp=True)[2] or b'y'])
        frames.append(('tcp-reply-flags-with-data', w.data_frame(v6, sp, dp, rng.u32(), pl, flags=fl)))
        frames.append(('tcp-data', w.data_frame(v6, sp, dp, 7, b'GET / HT')))
        frames.append(('tcp-reply-flags-with-data', w.data_frame(v6, sp, dp, rng.u32(), pl, flags=fl, ackdelta=rng.choice([1, 5]))))
        # bare RSTs on the flow that now has a control block: sequence number at / just inside / far inside / outside the window
        for dlt in (0, 1, rng.choice([2, 17, 1000, 65534]), rng.choice([65535, 65536, 0x7fffffff, -1 & 0xffffffff])):
            frames.append(('tcp-rst-on-established', w.tcp_frame(v6, sp, dp, (15 + dlt) & 0xffffffff, rng.choice([0, rng.u32()]), rng.choice([0x04, 0x04, 0x14]))))
    l2case = case(w, [f for _, f in frames], ['reply-typed-l2l4'])
    # reply-typed messages on a TCP flow already identified as that protocol (sticky id): STUN non-requests on a STUN
    # flow, reply-flagged SMB on an SMB flow — the protocol's own responder sees them directly
    sops = [('C', w.cfg()), ('X',)]
    sticky_checks = []
    for _ in range(n):
        kind = rng.choice(['stun', 'smb1', 'smb2'])
        _ck[0] += 1
        ck = _ck[0]
        first = {'stun': gen.gen_stun_long, 'smb1': gen.gen_smb1, 'smb2': gen.gen_smb2}[kind](rng)
        sops.append(app_op(rng, w, first, tcp=True, v6=False, sport=4000, dport=5000, cookie=ck))
        if kind == 'stun':
            ty = rng.choice([b'\x00\x11', b'\x01\x01', b'\x01\x11'])
            attrs = rng.choice([b'', gen.stun_attr(1, b'\x00\x01' + rng.bytes(6)), gen.stun_attr(0x8022, rng.bytes(4))])
            msg = ty + struct.pack('>H', len(attrs)) + rng.choice([bytes(16), b'\x21\x12\xa4\x42' + rng.bytes(12)]) + attrs
        else:
            msg = (gen.gen_smb1 if kind == 'smb1' else gen.gen_smb2)(rng, 'replyflag')
        sops.append(app_op(rng, w, msg, tcp=True, v6=False, sport=4000, dport=5000, cookie=ck))
        sticky_checks.append((len(sops) - 1, 'stun' if kind == 'stun' else 'smb', kind))
    scase = {'ops': sops, 'tags': ['reply-typed-on-identified-flow']}
    # --- application reply-typed messages: own replies re-addressed, and generated ones; chains
    seeds = []
    for _ in range(n * 4):
        tcp = rng.chance(1, 3)
        kind, fault, pl = gen.gen_app(rng, tcp=tcp)
        seeds.append((tcp, pl))
    gen_replies = []
    for _ in range(n):
        q = gen.gen_dns(rng, 'qr')
        gen_replies.append(('dns', False, q))
        ty = rng.choice([b'\x00\x11', b'\x01\x01', b'\x01\x11'])
        attrs = rng.choice([b'', gen.stun_attr(1, b'\x00\x01' + rng.bytes(6)), gen.stun_attr(0x8022, rng.bytes(4))])
        gen_replies.append(('stun', False, ty + struct.pack('>H', len(attrs)) + rng.choice([bytes(16), b'\x21\x12\xa4\x42' + rng.bytes(12), rng.bytes(16)]) + attrs))
        gen_replies.append(('smb', True, gen.gen_smb1(rng, 'replyflag')))
        gen_replies.append(('smb', True, gen.gen_smb2(rng, 'replyflag')))
        gen_replies.append(('rpc', rng.chance(1, 2), None))
    fixed = []
    for kind, tcp, pl in gen_replies:
        if kind == 'rpc':
            pl = gen.gen_rpc(rng, tcp, 'reply', shadow_ok=False)
        fixed.append((kind, tcp, pl))
    # round 0: seeds (requests) -> the implementation's own replies
    ops0 = [('C', w.cfg()), ('X',)] + [app_op(rng, w, pl, tcp=tcp, v6=False, sport=4000, dport=5000) for tcp, pl in seeds]
    c0 = {'ops': ops0, 'tags': ['seed-requests']}
    run_cases([c0], want_model=False)
    own = []
    for (tcp, pl), b in zip(seeds, c0['impl'][2:]):
        parts = b['r'].split()
        if parts and parts[0] not in ('-', 'PANIC'):
            r = bytes.fromhex(parts[0])
            # C12 lists DNS / STUN / SMB / ONC-RPC replies (SSH banners and Gh0st frames are not protocol-marked replies)
            if reflect_class(r) in ('dns', 'stun', 'smb', 'rpc'):
                own.append((reflect_class(r), tcp, r))
    msgs = fixed + own
    violations, disagreements, samples = [], [], []
    chain_cases = []
    # every message is sent to an arbitrary port and to the well-known port of its protocol (a responder may single that one out)
    WK = {'rpc': 111, 'dns': 53, 'stun': 3478, 'smb': 445}
    cur = [(k, tcp, pl, [], k, dp) for k, tcp, pl in msgs for dp in (5000, WK.get(k, 80))]
    for depth in range(4):
        ops = [('C', w.cfg()), ('X',)] + [app_op(rng, w, pl, tcp=tcp, v6=False, sport=4000, dport=dp) for _, tcp, pl, _, _, dp in cur]
        cc = {'ops': ops, 'tags': ['reflect%d' % depth]}
        run_cases([cc])
        chain_cases.append(cc)
        nxt = []
        for (k, tcp, pl, chain, k0, dp), b in zip(cur, cc['impl'][2:]):
            parts = b['r'].split()
            if parts and parts[0] not in ('-', 'PANIC'):
                r = bytes.fromhex(parts[0])
                rc = reflect_class(r)
                ch = chain + [(k, pl, rc)]
                if depth == 0 and rc == k and k in ('dns', 'stun', 'smb', 'rpc'):
                    violations.append({'clause': '%s message marked as a reply was answered by the %s responder' % (k, k),
                                       'ops': [op_to_json(ops[0]), ['X'], op_to_json(app_op(rng, w, pl, tcp=tcp, v6=False, sport=4000, dport=dp))], 'tags': [k]})
                if len(ch) > 2:
                    violations.append({'clause': 'reflection chain of a %s reply-typed message does not die out after two replies' % k0,
                                       'ops': [op_to_json(ops[0]), ['X']] + [op_to_json(app_op(rng, w, x[1], tcp=tcp, v6=False, sport=4000, dport=dp)) for x in ch],
                                       'tags': [k0], 'chain': [x[2] for x in ch]})
                else:
                    nxt.append((rc, tcp, r, ch, k0, dp))
        if depth == 0 and len(samples) < 3:
            for (k, tcp, pl, chain, k0, dp), b in list(zip(cur, cc['impl'][2:]))[:3]:
                samples.append({'class': k, 'transport': 'tcp' if tcp else 'udp', 'message': pl.hex()[:120], 'answer': b['r'][:80]})
        cur = nxt
        if not cur:
            break
    run_cases([scase])
    for i, cls, kind in sticky_checks:
        parts = scase['impl'][i]['r'].split()
        if parts and parts[0] not in ('-', 'PANIC') and reflect_class(bytes.fromhex(parts[0])) == cls:
            violations.append({'clause': '%s message marked as a reply was answered by the %s responder on a flow identified as %s' % (cls, cls, kind),
                               'ops': [op_to_json(x) for x in (scase['ops'][:2] + scase['ops'][i - 1:i + 1])], 'tags': [kind, 'sticky']})
    run_cases([l2case])
    for fi, ((name, f), b) in enumerate(zip(frames, l2case['impl'][2:])):
        if name == 'tcp-data':
            continue
        if outcome(b['r']) == 'reply':
            # replay: the frame alone when that suffices, else with the history in front of it
            hist = [op_to_json(('F', g)) for _, g in frames[max(0, fi - 12):fi]] if 'established' in name or 'with-data' in name else []
            violations.append({'clause': '%s elicited a reply' % name, 'ops': [op_to_json(l2case['ops'][0]), ['X']] + hist + [op_to_json(('F', f))], 'tags': [name]})
    compared, exact = _corr(chain_cases + [l2case, scase], lambda o, b: proj_a(b['r']) if o[0] == 'A' else outcome(b['r']), disagreements)
    dist = {'l2l4_frames': len(frames), 'generated_app_replies': len(fixed), 'own_replies_reflected': len(own)}
    return _result(len(frames) + len(msgs), len(frames) + len(msgs), samples, compared, exact, disagreements, violations, pd['rule'], dist)


PROPS.update({
    'C08': dict(custom=explore_c08, gen=lambda rng, tier: [], proj=None,
                rule='for probe segments of scripted multi-flow histories: the reply under the full history is compared with the reply under the history '
                     'restricted to the accepted data segments of the probe\'s own flow, and with other-flow traffic / ARP / ICMP / UDP noise appended, '
                     'prepended or inserted (wall-clock fields masked); non-trivial = probe that is answered'),
    'C11': dict(custom=explore_c11, gen=lambda rng, tier: [], proj=None,
                rule='request streams (HTTP grammar + faults, ONC-RPC/TCP calls), every 1-cut composition, 2-cut compositions (sampled in quick, exhaustive in '
                     'thorough) and random k-cut compositions, each on a fresh flow through real PSH|ACK segments; oracle: only bare ACKs before the trigger '
                     'byte (shortest answered prefix), the segment containing it carries the reply of the unsegmented stream; non-trivial = stream that is answered'),
    'C12': dict(custom=explore_c12, gen=lambda rng, tier: [], proj=None,
                rule='reply-typed messages of every protocol (ARP reply, ICMP/ICMPv6 echo reply, NA, TCP SYN|ACK and RST, DNS QR=1, STUN indication/success/'
                     'error, SMB with reply flag, ONC-RPC reply) both generated and taken from the implementation\'s own answers re-addressed to it; '
                     'judge: not answered by the same protocol\'s responder, and the reflection chain contains at most two replies'),
    'C19': dict(custom=explore_c19, gen=lambda rng, tier: [], proj=None,
                rule='every generated application payload is sent over 6 variants (IPv4/IPv6 x three port pairs incl. 0 and 65535) of the same transport; '
                     'canonical replies (wall clock, STUN MAPPED-ADDRESS, portmapper results, DNS RDATA masked; local-port delta kept) must be identical; '
                     'non-trivial = payload answered in some variant'),
})
