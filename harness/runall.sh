#!/bin/sh
# runall.sh [tier] : every property's check on the current tree; one summary line each
tier=${1:-quick}
for p in C01 C02 C03 C04 C05 C06 C07 C08 C09 C10 C11 C12 C13 C14 C15 C16 C17 C18 C19 C20; do
  s=$(date +%s); out=$(cd /verif && ./check $p --tier $tier 2>&1); rc=$?; e=$(date +%s)
  v=$(echo "$out" | grep -c VIOLATION); k=$(echo "$out" | grep -c KNOWN-FINDING)
  python3 - "$p" "$rc" "$v" "$k" "$((e-s))" <<'PY'
import json,sys
p,rc,v,k,t=sys.argv[1:]
try:
    c=json.load(open('/verif/evidence/%s.json'%p))['coverage']
    print('%s rc=%s viol=%s known=%s %ss thm=%s/%s eval=%s nontriv=%s agree=%s/%s' % (p,rc,v,k,t,c.get('discharged'),c.get('obligations'),c.get('evaluations'),c.get('distinct_nontrivial'),c.get('byte_exact_agreement'),c.get('traces_validated_against_impl')))
except Exception as ex:
    print(p,'rc=',rc,'no evidence',ex)
PY
done
