#!/bin/sh
# harmpar.sh [workers] : every stored harmless rewrite (/verif/harmless/*.diff) against ALL twenty quick checks, in parallel
#   (workers as in seedpar.sh: own scratch worktree of /repo, cargo target directory and copy of the Lean project).
#   None may report a violation. Result lines in /verif/.build/harmpar.log.
N=${1:-7}
W=/tmp/harmpar
rm -rf $W; mkdir -p $W
: > /verif/.build/harmpar.log
i=0
for d in /verif/harmless/*.diff; do
  k=$((i % N)); i=$((i + 1)); echo "$d" >> $W/list.$k
done
for k in $(seq 0 $((N - 1))); do
  [ -f $W/list.$k ] || continue
  (
    mkdir -p $W/$k
    git -C /repo worktree add --detach $W/$k/repo HEAD -q 2>/dev/null
    cp -r /verif/lean $W/$k/lean
    mkdir -p $W/$k/build
    cp /verif/.build/timeshim.so $W/$k/build/ 2>/dev/null
    for d in $(cat $W/list.$k); do
      n=$(basename $d .diff)
      git -C $W/$k/repo apply $d 2>/dev/null || { echo "$n: patch does not apply" >> /verif/.build/harmpar.log; continue; }
      bad=""
      for p in C01 C02 C03 C04 C05 C06 C07 C08 C09 C10 C11 C12 C13 C14 C15 C16 C17 C18 C19 C20; do
        out=$(cd /verif && VERIF_REPO=$W/$k/repo VERIF_BUILD=$W/$k/build VERIF_LEAN=$W/$k/lean VERIF_NO_EVIDENCE=1 ./check $p --tier quick 2>&1); rc=$?
        if [ $rc -ne 0 ] || echo "$out" | grep -q "^VIOLATION"; then bad="$bad $p"; fi
      done
      echo "$n: alarms:${bad:- none}" >> /verif/.build/harmpar.log
      git -C $W/$k/repo checkout -- . ; git -C $W/$k/repo clean -qfd src
    done
    git -C /repo worktree remove --force $W/$k/repo
    rm -rf $W/$k
  ) &
done
wait
sort /verif/.build/harmpar.log
