#!/bin/sh
# confirm_seed.sh <Cxx> : re-confirm a seeded change in its scratch worktree /tmp/mut/<Cxx>/repo
#   demo alone passes, patch alone keeps the 93 tests green, patch+demo fails.
id=$1; base=${2:-/tmp/mut}; W=$base/$id/repo; O=$base/$id/out
export CARGO_NET_OFFLINE=true CARGO_TARGET_DIR=${SEED_TARGET:-/tmp/mut/target}
cd $W || exit 2
clean() { git checkout -q -- . && git clean -qfd; }
summ() { grep -E "^test result" | head -1; }
clean; git apply $O/demo.diff || { echo "demo.diff does not apply"; exit 2; }
r1=$(cargo test --offline 2>&1 | summ)
clean; git apply $O/patch.diff || { echo "patch.diff does not apply"; exit 2; }
r2=$(cargo test --offline 2>&1 | summ)
git apply $O/demo.diff || { echo "demo.diff does not apply after patch"; exit 2; }
r3=$(cargo test --offline 2>&1 | summ)
clean
echo "demo-only : $r1"; echo "patch-only: $r2"; echo "patch+demo: $r3"
