/* timeshim.c -- LD_PRELOAD shim for the correspondence check: every clock the implementation can read (clock_gettime,
 * gettimeofday, time) is shifted forward by VERIF_TIME_SHIFT seconds. The guarded driver sets that variable when it reads
 * a `Z <seconds>` op, so a history can contain "65 seconds / a day / 70 years later" without anybody sleeping.
 * Build: cc -shared -fPIC -O2 -o timeshim.so timeshim.c -ldl */
#define _GNU_SOURCE
#include <dlfcn.h>
#include <stdlib.h>
#include <time.h>
#include <sys/time.h>

static long long shift(void) {
    const char *s = getenv("VERIF_TIME_SHIFT");
    return s ? atoll(s) : 0;
}

int clock_gettime(clockid_t id, struct timespec *ts) {
    static int (*real)(clockid_t, struct timespec *);
    if (!real) real = (int (*)(clockid_t, struct timespec *))dlsym(RTLD_NEXT, "clock_gettime");
    int r = real(id, ts);
    if (r == 0 && ts) ts->tv_sec += shift();
    return r;
}

int gettimeofday(struct timeval *tv, void *tz) {
    static int (*real)(struct timeval *, void *);
    if (!real) real = (int (*)(struct timeval *, void *))dlsym(RTLD_NEXT, "gettimeofday");
    int r = real(tv, tz);
    if (r == 0 && tv) tv->tv_sec += shift();
    return r;
}

time_t time(time_t *t) {
    static time_t (*real)(time_t *);
    if (!real) real = (time_t (*)(time_t *))dlsym(RTLD_NEXT, "time");
    time_t r = real(0) + shift();
    if (t) *t = r;
    return r;
}
