"""covsum.py <llvm-cov show output> : never-executed source lines per file (outside #[cfg(test)] modules), grouped in ranges."""
import re, sys
cur = None; intest = False; out = {}; tot = {}
for line in open(sys.argv[1], errors='replace'):
    m = re.match(r'^(/repo/src/\S+):$', line.rstrip())
    if m:
        cur = m.group(1); intest = False; out[cur] = []; tot[cur] = [0, 0]; continue
    m = re.match(r'^\s*(\d+)\|\s*([0-9.kME]*)\|(.*)$', line.rstrip('\n'))
    if not m or cur is None:
        continue
    ln, cnt, src = int(m.group(1)), m.group(2), m.group(3)
    if '#[cfg(test)]' in src:
        intest = True
    if intest or cnt == '':
        continue
    tot[cur][1] += 1
    if cnt == '0':
        out[cur].append((ln, src.strip()))
    else:
        tot[cur][0] += 1
for f in sorted(out):
    if tot[f][1] == 0:
        continue
    print('== %s  executed %d/%d lines' % (f, tot[f][0], tot[f][1]))
    for ln, src in out[f]:
        print('   %5d  %s' % (ln, src[:140]))
