#!/usr/bin/env python3
import os, sys
sys.path.insert(0, os.path.dirname(os.path.abspath(__file__)))
import check
ok, info = check.regenerate()
print('regenerate', ok, info if not ok else '')
sys.exit(0 if ok else 1)
