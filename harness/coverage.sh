#!/bin/sh
# coverage.sh [quick|thorough] [Cxx ...] : which lines of /repo/src does the correspondence check execute?
#   builds /repo with `-C instrument-coverage` (nightly toolchain: it ships llvm-profdata / llvm-cov), runs the checks with that
#   binary as the implementation, and writes a per-file summary + the list of never-executed source lines to .build/cov/.
#   A measurement of the generators' reach (tie between model and code), not a verdict: nothing here decides a property.
tier=${1:-quick}; shift
props=${*:-C01 C02 C03 C04 C05 C06 C07 C08 C09 C10 C11 C12 C13 C14 C15 C16 C17 C18 C19 C20}
COV=/verif/.build/cov; TOOLS=$(ls -d /root/.rustup/toolchains/nightly-x86_64-unknown-linux-gnu/lib/rustlib/*/bin | head -1)
export CARGO_NET_OFFLINE=true
(cd /repo && LLVM_PROFILE_FILE=$COV/build-%p-%m.profraw RUSTFLAGS="--cfg masscanned_verif -C instrument-coverage" cargo +nightly build --offline --target-dir $COV >/dev/null 2>$COV.log) || { tail -20 $COV.log; exit 2; }
rm -rf $COV/prof; mkdir -p $COV/prof
for p in $props; do
  LLVM_PROFILE_FILE="$COV/prof/$p-%p-%m.profraw" VERIF_IMPL_BIN=$COV/debug/masscanned VERIF_NO_EVIDENCE=1 /verif/check $p --tier $tier >/dev/null 2>&1
  echo "$p rc=$? profiles=$(ls $COV/prof | grep -c "^$p-")"
done
$TOOLS/llvm-profdata merge -sparse $COV/prof/*.profraw -o $COV/all.profdata || exit 2
$TOOLS/llvm-cov report $COV/debug/masscanned -instr-profile=$COV/all.profdata --ignore-filename-regex='(/\.cargo/|/rustc/|verif\.rs)' > $COV/report.txt
$TOOLS/llvm-cov show $COV/debug/masscanned -instr-profile=$COV/all.profdata --ignore-filename-regex='(/\.cargo/|/rustc/|verif\.rs)' --show-line-counts-or-regions > $COV/show.txt
python3 /verif/harness/covsum.py $COV/show.txt > $COV/uncovered.txt
tail -45 $COV/report.txt | cut -c1-150
