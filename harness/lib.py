"""Shared harness library: packet builders, op rendering, runners, block/log parsers."""
import ipaddress
import os
import re
import subprocess
import struct

VERIF = os.path.dirname(os.path.dirname(os.path.abspath(__file__)))
BUILD = os.environ.get('VERIF_BUILD') or os.path.join(VERIF, '.build')      # overridable: parallel workers (harness/seedpar.sh)
REPO = os.environ.get('VERIF_REPO') or '/repo'
LEAN_DIR = os.environ.get('VERIF_LEAN') or os.path.join(VERIF, 'lean')
IMPL_BIN = os.environ.get('VERIF_IMPL_BIN') or os.path.join(BUILD, 'cargo', 'debug', 'masscanned')   # override: coverage-instrumented build (harness/coverage.sh)
IMPL_BIN_REL = os.path.join(BUILD, 'cargo', 'release', 'masscanned')
MDRIVER = os.path.join(LEAN_DIR, '.lake', 'build', 'bin', 'mdriver')
TIMESHIM = os.path.join(BUILD, 'timeshim.so')

MAC_ME = bytes.fromhex('c0ffeec0ffee')
MAC_CL = bytes.fromhex('020000000001')
BCAST = b'\xff' * 6

# ----------------------------------------------------------------------------- PRNG


class Rng:
    """xorshift64*; every random choice of a run derives from one seed."""

    def __init__(self, seed):
        self.s = (seed * 0x9E3779B97F4A7C15 + 0x1234567) & 0xFFFFFFFFFFFFFFFF or 1

    def next(self):
        x = self.s
        x ^= (x >> 12)
        x ^= (x << 25) & 0xFFFFFFFFFFFFFFFF
        x ^= (x >> 27)
        self.s = x
        return (x * 0x2545F4914F6CDD1D) & 0xFFFFFFFFFFFFFFFF

    def below(self, n):
        return self.next() % n if n > 0 else 0

    def choice(self, l):
        return l[self.below(len(l))]

    def bytes(self, n):
        return bytes(self.below(256) for _ in range(n))

    def chance(self, num, den):
        return self.below(den) < num

    def u16(self):
        return self.choice([0, 1, 80, 255, 256, 32767, 32768, 65534, 65535, self.below(65536), self.below(65536)])

    def u32(self):
        return self.choice([0, 1, 2, 0x7fffffff, 0x80000000, 0x80000001, 0xfffffffe, 0xffffffff,
                            self.below(1 << 32), self.below(1 << 32)])

# ----------------------------------------------------------------------------- checksums / siphash (harness side, used to BUILD inputs only)


def csum16(data):
    if len(data) % 2:
        data = data + b'\0'
    s = sum(struct.unpack('>%dH' % (len(data) // 2), data))
    while s >> 16:
        s = (s & 0xffff) + (s >> 16)
    return (~s) & 0xffff


def _rotl(x, b):
    return ((x << b) | (x >> (64 - b))) & 0xFFFFFFFFFFFFFFFF


def siphash24(k0, k1, msg):
    v0 = k0 ^ 0x736f6d6570736575
    v1 = k1 ^ 0x646f72616e646f6d
    v2 = k0 ^ 0x6c7967656e657261
    v3 = k1 ^ 0x7465646279746573
    M = 0xFFFFFFFFFFFFFFFF

    def rnd():
        nonlocal v0, v1, v2, v3
        v0 = (v0 + v1) & M; v1 = _rotl(v1, 13); v1 ^= v0; v0 = _rotl(v0, 32)
        v2 = (v2 + v3) & M; v3 = _rotl(v3, 16); v3 ^= v2
        v0 = (v0 + v3) & M; v3 = _rotl(v3, 21); v3 ^= v0
        v2 = (v2 + v1) & M; v1 = _rotl(v1, 17); v1 ^= v2; v2 = _rotl(v2, 32)
    n = len(msg)
    i = 0
    while i + 8 <= n:
        m = int.from_bytes(msg[i:i + 8], 'little')
        v3 ^= m; rnd(); rnd(); v0 ^= m
        i += 8
    last = int.from_bytes(msg[i:], 'little') | ((n & 0xff) << 56)
    v3 ^= last; rnd(); rnd(); v0 ^= last
    v2 ^= 0xff
    rnd(); rnd(); rnd(); rnd()
    return v0 ^ v1 ^ v2 ^ v3


def cookie(key, src, dst, sport, dport):
    """src/dst: raw address bytes (4 or 16)."""
    msg = src[::-1] + dst[::-1] + struct.pack('<HH', sport, dport)
    return siphash24(key[0], key[1], msg) & 0xFFFFFFFF

# ----------------------------------------------------------------------------- packet builders


def eth(dst, src, ety, pl):
    return dst + src + struct.pack('>H', ety) + pl


def arp(op, sha, spa, tha, tpa, htype=1, ptype=0x0800, hlen=6, plen=4, pad=b''):
    return struct.pack('>HHBBH', htype, ptype, hlen, plen, op) + sha + spa + tha + tpa + pad


def ipv4(src, dst, proto, pl, ihl=5, total=None, flags_frag=0, ttl=64, opts=b'', ident=1):
    hl = 20 + len(opts)
    tl = hl + len(pl) if total is None else total
    h = bytearray(struct.pack('>BBHHHBBH', 0x40 | (ihl & 15), 0, tl & 0xffff, ident, flags_frag, ttl, proto, 0) + src + dst + opts)
    c = csum16(bytes(h))
    h[10:12] = struct.pack('>H', c)
    return bytes(h) + pl


def ipv6(src, dst, nh, pl, plen=None, hlim=64):
    return struct.pack('>IHBB', 0x60000000, (len(pl) if plen is None else plen) & 0xffff, nh, hlim) + src + dst + pl


def pseudo(src, dst, proto, length):
    if len(src) == 4:
        return src + dst + struct.pack('>BBH', 0, proto, length & 0xffff)
    return src + dst + struct.pack('>IBBBB', length, 0, 0, 0, proto)


def udp(sport, dport, pl, length=None, src=None, dst=None):
    l = 8 + len(pl) if length is None else length
    h = struct.pack('>HHHH', sport, dport, l & 0xffff, 0)
    if src is not None:
        c = csum16(pseudo(src, dst, 17, 8 + len(pl)) + h + pl) or 0xffff
        h = struct.pack('>HHHH', sport, dport, l & 0xffff, c)
    return h + pl


def tcp(sport, dport, seq, ack, flags, pl=b'', doff=5, opts=b'', win=8192, src=None, dst=None):
    h = struct.pack('>HHIIBBHHH', sport, dport, seq & 0xffffffff, ack & 0xffffffff,
                    ((doff & 15) << 4) | ((flags >> 8) & 1), flags & 0xff, win, 0, 0) + opts
    if src is not None:
        c = csum16(pseudo(src, dst, 6, len(h) + len(pl)) + h + pl)
        h = h[:16] + struct.pack('>H', c) + h[18:]
    return h + pl


def icmp(ty, code, rest, ck=None):
    h = struct.pack('>BBH', ty, code, 0) + rest
    c = csum16(h) if ck is None else ck
    return struct.pack('>BBH', ty, code, c) + rest


def icmp6(ty, code, rest, src=None, dst=None, ckdelta=0):
    h = struct.pack('>BBH', ty, code, 0) + rest
    c = 0
    if src is not None:
        c = csum16(pseudo(src, dst, 58, len(h)) + h)
    return struct.pack('>BBH', ty, code, (c + ckdelta) & 0xffff) + rest


def ip4(s):
    return ipaddress.IPv4Address(s).packed


def ip6(s):
    return ipaddress.IPv6Address(s).packed

# ----------------------------------------------------------------------------- ops
# op tuples:
#   ('C', dict(mac=bytes, self=None|[bytes], deny=None|[bytes], key=(k0,k1), logger='none', level='off'))
#   ('X',)
#   ('F', frame bytes)
#   ('A', 'tcp'|'udp', src bytes, dst bytes, sport, dport, cookie|None, payload bytes)
#   ('S', 'proto'|'http', state, end(0|1), data)
#   ('K', src, dst, sport, dport)
#   ('P', cookie)
#   ('E', date bytes, secs)        (model only)


def ip_text(b):
    return str(ipaddress.IPv4Address(b)) if len(b) == 4 else str(ipaddress.IPv6Address(b))


def ip_model(b):
    return ('4:' if len(b) == 4 else '6:') + b.hex()


def hx(b):
    return b.hex() if b else '-'


def default_cfg(**kw):
    c = dict(mac=MAC_ME, self=None, deny=None, key=(0, 0), logger='none', level='off')
    c.update(kw)
    return c


def render(op, side):
    k = op[0]
    ipf = ip_text if side == 'impl' else ip_model
    if k == 'C':
        c = op[1]
        def ips(l):
            return '-' if l is None else ','.join(ipf(x) for x in l)
        s = 'C mac=%s self=%s deny=%s key=%x,%x logger=%s level=%s' % (
            c['mac'].hex(), ips(c['self']), ips(c['deny']), c['key'][0], c['key'][1], c['logger'], c['level'])
        if side == 'model':
            s += ' ovf=%d' % (1 if c.get('ovf', True) else 0)
        return s
    if k == 'X':
        return 'X'
    if k == 'D':
        return 'D ' + op[1]
    if k == 'F':
        return 'F ' + hx(op[1])
    if k == 'A':
        return 'A %s %s %s %d %d %s %s' % (op[1], ipf(op[2]), ipf(op[3]), op[4], op[5],
                                           '-' if op[6] is None else str(op[6]), hx(op[7]))
    if k == 'S':
        return 'S %s %d %d %s' % (op[1], op[2], op[3], hx(op[4]))
    if k == 'K':
        return 'K %s %s %d %d' % (ipf(op[1]), ipf(op[2]), op[3], op[4])
    if k == 'P':
        return 'P %d' % op[1]
    if k == 'Z':
        return 'Z %d' % op[1]
    if k == 'E':
        assert side == 'model'
        return 'E %s %d' % (hx(op[1]), op[2])
    raise ValueError(op)


HUNG = []     # set by run_driver when the last implementation run was killed for not terminating


def run_driver(cmd, lines, env=None, timeout=3600):
    """Feed the op lines to a driver. A run that does not finish within `timeout` seconds is killed and what it had
    printed so far is returned with rc 'timeout' (the op after the last complete block is the one that never returned)."""
    e = dict(os.environ)
    if env:
        e.update(env)
    p = subprocess.Popen(cmd, stdin=subprocess.PIPE, stdout=subprocess.PIPE, stderr=subprocess.PIPE, env=e)
    try:
        out, err = p.communicate(('\n'.join(lines) + '\n').encode(), timeout=timeout)
        return out.decode('latin-1'), p.returncode, err.decode('latin-1')
    except subprocess.TimeoutExpired:
        p.kill()
        out, err = p.communicate()
        HUNG.append(timeout)
        return out.decode('latin-1'), 'timeout', err.decode('latin-1')


def impl_timeout(nops):
    """generous bound for the implementation driver: the unchanged tree does ~5 000 ops/s (floods: 30 000/s)"""
    return int(os.environ.get('VERIF_IMPL_TIMEOUT', 0)) or 60 + nops // 300


def parse_blocks(text):
    """-> list of dict(log=[lines], r=str, t=int)"""
    out = []
    cur = None
    for line in text.split('\n'):
        if line == '@@B':
            cur = dict(log=[], r=None, t=None)
        elif cur is None:
            continue
        elif line.startswith('@@R'):
            cur['r'] = line[4:]
        elif line.startswith('@@T'):
            cur['t'] = int(line[4:])
        elif line == '@@E':
            out.append(cur)
            cur = None
        else:
            cur['log'].append(line)
    return out, cur  # cur != None => the process died inside a block


def run_impl(ops, release=False):
    lines = [render(o, 'impl') for o in ops]
    env = {'MASSCANNED_VERIF': '1'}
    if os.path.exists(TIMESHIM):
        env['LD_PRELOAD'] = TIMESHIM       # `Z <seconds>` ops: every clock the implementation reads is shifted (harness/timeshim.c)
    text, rc, err = run_driver([IMPL_BIN_REL if release else IMPL_BIN], lines, env=env, timeout=impl_timeout(len(lines)))
    blocks, partial = parse_blocks(text)
    return blocks, rc, err, partial


def run_model(ops):
    lines = [render(o, 'model') for o in ops]
    text, rc, err = run_driver([MDRIVER, 'model'], lines)
    blocks, partial = parse_blocks(text)
    return blocks, rc, err, partial

# ----------------------------------------------------------------------------- environment recovery


DATE_RE = re.compile(rb'\nDate: ([^\n]*)\n')
EPOCH_1601 = 11644473600


def extract_env(reply_bytes):
    """Recover the wall-clock inputs from an implementation reply (frame or app payload)."""
    date = None
    secs = None
    m = DATE_RE.search(reply_bytes)
    if m:
        date = m.group(1)
    i = reply_bytes.find(b'\xffSMB\x72')
    if i >= 0 and len(reply_bytes) >= i + 32 + 34 + 8:
        t = int.from_bytes(reply_bytes[i + 32 + 24:i + 32 + 32], 'little')
        if t % 10000000 == 0:
            secs = t // 10000000 - EPOCH_1601
    i = reply_bytes.find(b'\xfeSMB')
    if i >= 0 and reply_bytes[i + 12:i + 14] == b'\x00\x00' and len(reply_bytes) >= i + 64 + 48:
        t = int.from_bytes(reply_bytes[i + 64 + 40:i + 64 + 48], 'little')
        if t % 10000000 == 0:
            secs = t // 10000000 - EPOCH_1601
    return date, secs

# ----------------------------------------------------------------------------- logger output -> canonical events


def _canon_mac(s):
    return s.replace(':', '').lower() if s else '-'


def _canon_ip(s):
    if not s:
        return '-'
    try:
        a = ipaddress.ip_address(s)
    except ValueError:
        return '?' + s
    return ('4:' if a.version == 4 else '6:') + a.packed.hex()


import json as _json
try:
    PROTO_NAMES = _json.load(open(os.path.join(os.path.dirname(os.path.abspath(__file__)), 'ipproto_names.json')))
except Exception:   # pragma: no cover
    PROTO_NAMES = {'Icmp': 1, 'Tcp': 6, 'Udp': 17, 'Icmpv6': 58}


def _canon_transport(s):
    if not s:
        return '-'
    if s in PROTO_NAMES:
        return str(PROTO_NAMES[s])
    if s == 'unknown':
        return '-'
    return '?' + s


def parse_console_line(line):
    """console logger line -> canonical 'EV layer verb macsrc macdst ipsrc ipdst transport psrc pdst' or None."""
    cols = line.split('\t')
    if len(cols) < 3:
        return None
    ts, proto, verb = cols[0], cols[1], cols[2]
    if not re.match(r'^\d+\.\d+$', ts):
        return None
    if proto == 'arp':
        if len(cols) < 8:
            return None
        op = re.match(r'ArpOperation\((\d+)\)', cols[7])
        return 'EV arp %s %s %s %s %s %s - -' % (verb, _canon_mac(cols[3]), _canon_mac(cols[4]), _canon_ip(cols[5]),
                                                 _canon_ip(cols[6]), op.group(1) if op else '?')
    if len(cols) < 10:
        return None
    return 'EV %s %s %s %s %s %s %s %s %s' % (proto, verb, _canon_mac(cols[3]), _canon_mac(cols[4]),
                                              _canon_ip(cols[5]), _canon_ip(cols[6]), _canon_transport(cols[7]),
                                              cols[8] or '-', cols[9] or '-')


LOGFMT_KEY = re.compile(r' (?=[a-z_0-9]+=)')


def parse_logfmt_line(line):
    """logfmt logger line -> canonical event string or None"""
    if not line.startswith('ts='):
        return None
    kv = {}
    for part in LOGFMT_KEY.split(line):
        part = part.strip()
        if not part:
            continue
        if '=' not in part:
            return None
        k, v = part.split('=', 1)
        kv[k] = v
    if not re.match(r'^\d+\.\d+$', kv.get('ts', '')) or 'proto' not in kv or 'verb' not in kv:
        return None
    proto = kv['proto']
    if proto == 'arp':
        op = re.match(r'ArpOperation\((\d+)\)', kv.get('op', ''))
        a, b = ('mac_src', 'mac_dst'), ('ip_src', 'ip_dst')
        if kv['verb'] == 'send':
            # logfmt labels the ARP reply from the packet's point of view (mac_src = our MAC); the
            # console logger and every other event use the client's point of view: canonicalise
            a, b = ('mac_dst', 'mac_src'), ('ip_dst', 'ip_src')
        return 'EV arp %s %s %s %s %s %s - -' % (kv['verb'], _canon_mac(kv.get(a[0])), _canon_mac(kv.get(a[1])),
                                                 _canon_ip(kv.get(b[0])), _canon_ip(kv.get(b[1])), op.group(1) if op else '?')
    return 'EV %s %s %s %s %s %s %s %s %s' % (proto, kv['verb'], _canon_mac(kv.get('mac_src')), _canon_mac(kv.get('mac_dst')),
                                              _canon_ip(kv.get('ip_src')), _canon_ip(kv.get('ip_dst')),
                                              _canon_transport(kv.get('transport')), kv.get('port_src') or '-', kv.get('port_dst') or '-')


TS_CONSOLE = re.compile(r'^\d+\.\d+\t')
TS_LOGFMT = re.compile(r'^ts=\d+\.\d+ ')


def strip_ts(line, logger):
    """remove the wall-clock prefix of a logger line"""
    return (TS_CONSOLE if logger == 'console' else TS_LOGFMT).sub('', line, count=1)


def parse_log_line(line, logger):
    return parse_console_line(line) if logger == 'console' else parse_logfmt_line(line)


def auth_macs(cfg):
    s = {cfg['mac'], BCAST, bytes.fromhex('333300000001')}
    for ip in cfg['self'] or []:
        if len(ip) == 4:
            s.add(bytes([1, 0, 0x5e, ip[1] & 0x7f, ip[2], ip[3]]))
        else:
            s.add(bytes([0x33, 0x33, 0xff]) + ip[13:16])
    return s
